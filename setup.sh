#!/bin/bash
# offline setup: make sure hypothesis is importable by /venv/bin/python; atheris (optional) into .deps
cd "$(dirname "${BASH_SOURCE[0]}")" || exit 1
/venv/bin/python -c "import hypothesis" 2>/dev/null || \
  /venv/bin/pip install --no-index --find-links /opt/veriftools/wheels hypothesis || exit 1
mkdir -p .deps evidence replays
/venv/bin/python -c "import sys; sys.path.insert(0,'.deps'); import atheris" 2>/dev/null || \
  /venv/bin/pip install -q --no-index --find-links /opt/veriftools/wheels --target .deps atheris >/dev/null 2>&1 || \
  echo "note: atheris not installable; C15 thorough tier will run the Hypothesis campaign only"
chmod +x check setup.sh tools/*.sh 2>/dev/null
exit 0
