reg("C08", "property-based testing: generated design recipes, uniquify, independent elaboration oracle (metamorphic before/after) + invariants",
    "Exploration: thousands of generated hierarchical netlists with every sharing pattern are uniquified and compared with an independent elaborator (occurrence tree, leaf types, endpoint partition), plus uniqueness, well-formedness, naming and idempotence checks. Random search with bounds (<=9 definitions, depth<=5); no absence claim.",
    "Trusted: vf/model.py (elaborator, wf), the recipe builder using the public construction API; Hypothesis. The top instance itself is not required to be unique.",
    "DESIGN.md 3 C08")
reg("C09", "property-based testing: generated design recipes, uniquify+flatten, independent elaboration oracle (endpoint-partition equality, leaf occurrence set)",
    "Exploration: thousands of generated named hierarchical netlists are flattened; an independent elaborator computes before-hand the set of leaf occurrences (slash path, definition, data) and the partition of leaf pin bits and top port bits into nets; after flatten the same is read directly off the flat top definition and compared for equality (the 'if and only if'), plus wf-core. Random search within bounds; no absence claim.",
    "Trusted: vf/model.py elaborator, recipe builder, Hypothesis. Uses uniquify to make shared designs unique (C08 decides uniquify itself).",
    "DESIGN.md 3 C09")
reg("C01", "stateful property-based testing: generated operation histories over the whole public mutator alphabet, invariant checked after every step",
    "Exploration: thousands of generated histories (valid and invalid arguments from the pool of every object ever created, incl. proxy outer pins, 1-2 netlists, both naming policies); after every step the containment/parent and pin/wire invariants are checked over the whole pool by identity and every reorder assignment is checked to be a permutation or a no-op. Bounded by history length (40/120) and universe size; no absence claim.",
    "Trusted: vf/ops.py interpreter (argument resolution), the invariant checker in vf/props/c01.py, Hypothesis. Proxy OuterPin objects' own .wire field is not part of the invariant.",
    "DESIGN.md 3 C01")
reg("C02", "stateful property-based testing: operation histories weighted to port/pin edits on instanced definitions and reference changes, mirror invariant after every step",
    "Exploration: generated histories; after every step every instance is in exactly its definition's reference set, its outer pins are exactly the definition's inner pins with correct back links and lookups, outer pins that vanished are off their wires, and an accepted re-point keeps (port index, pin index) -> wire. Bounded histories; no absence claim.",
    "Trusted: vf/ops.py, checker in vf/props/c02.py, Hypothesis.",
    "DESIGN.md 3 C02")
reg("C14", "stateful property-based testing with fault-like invalid calls: identity-level snapshot of the whole universe before every call, equality demanded after every refused call",
    "Exploration: generated histories in which ~25% of calls are refused (precondition or naming policy, compound constructors with colliding/illegal names and identifiers, near-miss reference changes); whenever a call raises, containment, parent pointers, connections, reference sets, instance pin maps, data, top instances, bundle attributes and the answers of all exact name/identifier lookups on the involved containers must equal the snapshot taken before the call. Bounded; no absence claim.",
    "Trusted: vf/ops.py, snapshot/lookups in vf/props/c14.py, Hypothesis. Arguments are always of the documented type.",
    "DESIGN.md 3 C14")
reg("C19", "stateful property-based testing against a reference model: a recording listener replays announcements into a shadow model that must equal the real universe after every step; differential run without listeners",
    "Exploration: generated histories with one or two recording CallbackListener subclasses (second one registered/removed mid-history, either order); mirror equality after every step (containment as sets, connections, references, top instance, data), before-state check at each first announcement, no phantom announcement after refused calls (veto by the namespace manager rolls the shadow back), and a differential run of the same history without listeners (same outcome trace and final state). Bounded; no absence claim.",
    "Trusted: the shadow model in vf/props/c19.py, vf/ops.py, Hypothesis. Containment mirrored as sets (API carries no positions); bundle attributes are not announced kinds.",
    "DESIGN.md 3 C19")
reg("C10", "stateful property-based testing against a linear-scan reference model: naming-relevant operation histories under both policies, refusal predicted for every edit, lookups compared with scans",
    "Exploration: generated histories of naming edits (constructors with name/identifier, add/remove/re-add, rename, un-name, set/delete/pop of .NAME and EDIF.identifier, clone then more edits) over small colliding alphabets under DEFAULT and EDIF; for every edit the scan model predicts refused/accepted (both directions: ghosts and misses), every involved scope is checked for uniqueness/legality, and every exact get_X(parent, value, key) answer is compared with a scan (all scopes again at the end). Bounded; no absence claim.",
    "Trusted: scan model and EDIF identifier rule in vf/props/c10.py (written from the documentation), vf/ops.py, Hypothesis. One policy per history.",
    "DESIGN.md 3 C10")
