reg("C08", "property-based testing: generated design recipes, uniquify, independent elaboration oracle (metamorphic before/after) + invariants",
    "Exploration: thousands of generated hierarchical netlists with every sharing pattern are uniquified and compared with an independent elaborator (occurrence tree, leaf types, endpoint partition), plus uniqueness, well-formedness, naming and idempotence checks. Random search with bounds (<=9 definitions, depth<=5); no absence claim.",
    "Trusted: vf/model.py (elaborator, wf), the recipe builder using the public construction API; Hypothesis. The top instance itself is not required to be unique.",
    "DESIGN.md 3 C08")
reg("C09", "property-based testing: generated design recipes, uniquify+flatten, independent elaboration oracle (endpoint-partition equality, leaf occurrence set)",
    "Exploration: thousands of generated named hierarchical netlists are flattened; an independent elaborator computes before-hand the set of leaf occurrences (slash path, definition, data) and the partition of leaf pin bits and top port bits into nets; after flatten the same is read directly off the flat top definition and compared for equality (the 'if and only if'), plus wf-core. Random search within bounds; no absence claim.",
    "Trusted: vf/model.py elaborator, recipe builder, Hypothesis. Uses uniquify to make shared designs unique (C08 decides uniquify itself).",
    "DESIGN.md 3 C09")
