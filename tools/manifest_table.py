reg("C08", "property-based testing: generated design recipes, uniquify, independent elaboration oracle (metamorphic before/after) + invariants",
    "Exploration: thousands of generated hierarchical netlists with every sharing pattern are uniquified and compared with an independent elaborator (occurrence tree, leaf types, endpoint partition), plus uniqueness, well-formedness, naming and idempotence checks. Random search with bounds (<=9 definitions, depth<=5); no absence claim.",
    "Trusted: vf/model.py (elaborator, wf), the recipe builder using the public construction API; Hypothesis. The top instance itself is not required to be unique.",
    "DESIGN.md 3 C08")
