#!/bin/bash
# usage: tools/try_seed.sh <patch.diff> <ID> [extra check args]
# apply the patch in a scratch worktree of /repo HEAD (never in /repo itself), run the check of <ID>
# against it through VERIF_REPO, remove the worktree.  NOTE: this overwrites evidence/<ID>.json with a
# run against the scratch tree; re-run the real check before committing evidence.
P="$1"; ID="$2"; shift 2
WT=$(mktemp -d /tmp/tryseed.XXXXXX); rmdir "$WT"
git -C /repo worktree add --detach "$WT" HEAD >/dev/null 2>&1 || { echo "cannot create worktree"; exit 2; }
cleanup() { git -C /repo worktree remove --force "$WT" >/dev/null 2>&1; rm -rf "$WT"; }
trap cleanup EXIT
cd "$WT" || exit 2
if ! git apply "$P" 2>/dev/null; then
  if ! patch -p1 -s --no-backup-if-mismatch < "$P" >/dev/null 2>&1; then echo "PATCH-DOES-NOT-APPLY"; exit 3; fi
fi
cd /verif && VERIF_REPO="$WT" ./check "$ID" --tier quick --no-shrink "$@" | grep -a -E "^check|signature|VIOLATION|HARNESS|KNOWN" | cut -c1-300
rc=${PIPESTATUS[0]}
echo "exit=$rc"
