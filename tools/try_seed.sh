#!/bin/bash
# usage: tools/try_seed.sh <patch.diff> <ID> [extra check args]   -- apply to /repo, run check, revert
P="$1"; ID="$2"; shift 2
cd /repo || exit 2
if ! git diff --quiet; then echo "repo dirty"; exit 2; fi
if ! git apply "$P" 2>/dev/null; then
  if ! patch -p1 -s --no-backup-if-mismatch < "$P"; then echo "PATCH-DOES-NOT-APPLY"; git checkout -- .; exit 3; fi
fi
cd /verif && ./check "$ID" --tier quick --no-shrink "$@" | grep -E "^check|signature|VIOLATION|HARNESS|KNOWN" | cut -c1-300
rc=${PIPESTATUS[0]}
git -C /repo checkout -- . ; git -C /repo clean -fdq -- spydrnet
echo "exit=$rc"
