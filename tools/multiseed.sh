#!/bin/bash
# run every quick check at several seeds; print only deviations from "exit 0"
cd "$(dirname "$0")/.."
for seed in ${SEEDS:-2 3 5 11}; do
  for id in ${IDS:-C01 C02 C03 C04 C05 C06 C07 C08 C09 C10 C11 C12 C13 C14 C15 C16 C17 C18 C19 C20}; do
    out=$(VERIF_SEED=$seed ./check $id --tier quick 2>&1); rc=$?
    if [ $rc -ne 0 ]; then echo "=== seed=$seed $id rc=$rc"; echo "$out" | grep -E "signature|VIOLATION|HARNESS|Traceback|Error" | cut -c1-400 | head -12; fi
  done
done
echo "multiseed done"
