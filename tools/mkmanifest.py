#!/usr/bin/env python3
"""regenerate MANIFEST.json from the table below + the property modules present"""
import json, os, sys
HERE = os.path.dirname(os.path.dirname(os.path.abspath(__file__)))
sys.path.insert(0, HERE)
props = [json.loads(l) for l in open(os.path.join(HERE, "properties.jsonl"))]

# per property: (technique, level text, level note, design ref)
T = {}
def reg(pid, technique, text, note, ref):
    T[pid] = (technique, text, note, ref)

exec(open(os.path.join(HERE, "tools", "manifest_table.py")).read())

checks, na = [], []
for p in props:
    pid = p["id"]
    if pid in T and os.path.exists(os.path.join(HERE, "vf", "props", pid.lower() + ".py")):
        tech, text, note, ref = T[pid]
        checks.append({
            "property_id": pid,
            "quick_cmd": "./check %s --tier quick" % pid,
            "thorough_cmd": "./check %s --tier thorough" % pid,
            "evidence_file": "evidence/%s.json" % pid,
            "replay_cmd_template": "./check %s --replay {path}" % pid,
            "engine": "vf",
            "level_claimed": {"category": "exploration", "text": text, "design_ref": ref},
            "level_note": note,
            "technique": tech,
        })
    else:
        na.append({"property_id": pid, "reason": "check not built yet (work in progress); planned as property-based testing, see DESIGN.md section 3"})
m = {
    "version": 1,
    "setup_cmd": "./setup.sh",
    "hooks": {"guard": "SPYDRNET_VERIF", "enable": "none needed: every property is observable through the public API; checks import spydrnet from /repo's working tree in a fresh process",
              "baseline_off_cmd": "cd /repo && /venv/bin/python -m pytest -ra -q -p no:cacheprovider --timeout=900 --continue-on-collection-errors",
              "source_commits": [], "add_only": True},
    "engines": [{"name": "vf", "path": "vf/", "serves_properties": [c["property_id"] for c in checks],
                 "kind_free_text": "Hypothesis 6.168 strategies producing JSON recipes / operation histories / texts, 16 forked shards seeded from VERIF_SEED, independent reference model (vf/model.py) as oracle, collect-then-shrink with signature buckets and known_findings.json"}],
    "checks": checks,
    "not_applicable": na,
    "notes": "Every check: ./check <ID> --tier quick|thorough ; replay: ./check <ID> --replay <file>. Exit 0 = held on everything explored, 1 = VIOLATION line(s), 2 = harness error (never a verdict). Known findings: known_findings.json.",
}
json.dump(m, open(os.path.join(HERE, "MANIFEST.json"), "w"), indent=1)
print("checks:", [c["property_id"] for c in checks], "na:", len(na))
