#!/bin/bash
# regenerate everything that is committed as output: evidence of all quick checks against /repo itself,
# MANIFEST.json; validate both against the schemas
cd "$(dirname "$0")/.."
./setup.sh >/dev/null 2>&1
rc=0
for id in C01 C02 C03 C04 C05 C06 C07 C08 C09 C10 C11 C12 C13 C14 C15 C16 C17 C18 C19 C20; do
  out=$(./check $id --tier quick 2>&1); r=$?
  echo "$out" | grep -a -E "^check|VIOLATION|HARNESS" | cut -c1-160
  [ $r -ne 0 ] && rc=1
done
python3 tools/mkmanifest.py >/dev/null
python3-vt - <<'PY'
import json, glob, jsonschema
jsonschema.validate(json.load(open('MANIFEST.json')), json.load(open('/root/.vp/MANIFEST.schema.json')))
es = json.load(open('/root/.vp/EVIDENCE.schema.json'))
for f in sorted(glob.glob('evidence/C*.json')):
    jsonschema.validate(json.load(open(f)), es)
print("manifest and", len(glob.glob('evidence/C*.json')), "evidence files valid")
PY
exit $rc
