#!/bin/bash
# run the pinned test suite of the repository (guard off); prints the summary line
cd "${1:-/repo}" && /venv/bin/python -m pytest -q -p no:cacheprovider --timeout=900 --continue-on-collection-errors 2>&1 | tail -5
