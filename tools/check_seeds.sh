#!/bin/bash
# apply every kept seeded change to /repo in turn, run the quick check of its property, restore
cd "$(dirname "$0")/.."
for d in ${SEEDS:-seeded/*}; do
  id=$(basename $d); pid=${id%%-*}
  if grep -q '"obsolete"' "$d/meta.json" 2>/dev/null; then echo "$id obsolete (see meta.json)"; continue; fi
  out=$(tools/try_seed.sh "$PWD/$d/patch.diff" $pid 2>&1)
  if echo "$out" | grep -a -q "PATCH-DOES-NOT-APPLY"; then echo "$id DOES-NOT-APPLY";
  elif echo "$out" | grep -a -q "HARNESS"; then echo "$id HARNESS-ERROR";
  elif echo "$out" | grep -a -q "^VIOLATION"; then echo "$id caught: $(echo "$out" | grep -a -m1 "^  signature" | cut -c1-110)";
  else echo "$id MISSED"; fi
done
echo "check_seeds done"
