#!/bin/bash
# usage: [SEED_ROOT=/tmp/seed2] tools/adopt_seed.sh <ID> <A|B> [<target letter>]
# confirm a sub-agent's seeded change in a scratch worktree of /repo HEAD, then keep it under seeded/
ID="$1"; X="$2"; T="${3:-$2}"
SRC=${SEED_ROOT:-/tmp/seed}/$ID
WT=$(mktemp -d /tmp/adopt.XXXXXX)
rmdir "$WT"
git -C /repo worktree add --detach "$WT" HEAD >/dev/null 2>&1 || { echo "$ID-$X: cannot create worktree"; exit 2; }
cleanup() { git -C /repo worktree remove --force "$WT" >/dev/null 2>&1; rm -rf "$WT" "$DD"; }
trap cleanup EXIT
cd "$WT" || exit 2
DD=$(mktemp -d /tmp/adoptdemo.XXXXXX); cp "$SRC/demo_$X.py" "$DD/demo.py"; ln -s "$WT/example_netlists" "$DD/example_netlists"   # not next to another spydrnet/ (sys.path[0])
run_demo() { (cd "$DD" && PYTHONPATH="$WT" timeout 600 /venv/bin/python "$DD/demo.py" >/tmp/adopt_demo_$ID$X.log 2>&1); echo $?; }
clean_rc=$(run_demo)
if ! git apply "$SRC/patch_$X.diff" 2>/dev/null; then
  patch -p1 -s --no-backup-if-mismatch < "$SRC/patch_$X.diff" || { echo "$ID-$X: PATCH DOES NOT APPLY to HEAD"; exit 3; }
fi
git diff -- spydrnet > /tmp/adopt_patch_$ID$X.diff
bug_rc=$(run_demo)
tests=$(/venv/bin/python -m pytest -q -p no:cacheprovider --timeout=900 --continue-on-collection-errors 2>&1 | tail -1)
echo "$ID-$X: demo clean rc=$clean_rc, with patch rc=$bug_rc, tests: $tests"
if [ "$clean_rc" = "0" ] && [ "$bug_rc" != "0" ] && echo "$tests" | grep -q "4 failed, 580 passed"; then
  D=/verif/seeded/$ID-$T; mkdir -p "$D"
  cp /tmp/adopt_patch_$ID$X.diff "$D/patch.diff"; cp "$SRC/demo_$X.py" "$D/demo.py"
  /venv/bin/python - "$SRC/meta_$X.json" "$D/meta.json" "$clean_rc" "$bug_rc" "$tests" <<'PY'
import json,sys
src,dst,c,b,t=sys.argv[1:6]
try: m=json.load(open(src))
except Exception: m={}
m["confirmed"]={"worktree":"scratch worktree of /repo HEAD under /tmp (removed)","demo_clean_rc":int(c),"demo_patched_rc":int(b),"test_suite":t.strip(),
 "commands":["git apply patch.diff","cd /tmp && PYTHONPATH=<worktree> /venv/bin/python demo.py","/venv/bin/python -m pytest -q -p no:cacheprovider --timeout=900 --continue-on-collection-errors"]}
json.dump(m,open(dst,"w"),indent=1)
PY
  echo "$ID-$X: ADOPTED as $ID-$T"
else
  echo "$ID-$X: REJECTED"
fi
