#!/usr/bin/env python3
"""tools/record.py fixed|open <ID> <signature> <commit-or-dash> <replay-json-or-dash> <regress-name> <what...>
adds an entry to known_findings.json and (if a replay is given) a regression case"""
import json, os, sys
HERE = os.path.dirname(os.path.dirname(os.path.abspath(__file__)))
status, pid, sig, commit, replay, name = sys.argv[1:7]
what = " ".join(sys.argv[7:])
kfp = os.path.join(HERE, "known_findings.json")
kf = json.load(open(kfp))
ent = {"property": pid, "status": status, "signature": sig, "what": what}
if status == "fixed":
    ent["commit"] = commit
    ent["line"] = "fixed: property=%s %s %s" % (pid, commit, what)
else:
    ent["line"] = "KNOWN-FINDING: property=%s %s" % (pid, what)
if replay != "-":
    d = json.load(open(replay))
    case = d["case"] if isinstance(d, dict) and "case" in d else d
    os.makedirs(os.path.join(HERE, "regress", pid), exist_ok=True)
    rp = os.path.join("regress", pid, name + ".json")
    json.dump({"property": pid, "expect": "pass" if status == "fixed" else sig, "note": what,
               "case": case}, open(os.path.join(HERE, rp), "w"), indent=1, sort_keys=True)
    ent["regress"] = rp
kf["findings"] = [f for f in kf["findings"] if not (f["property"] == pid and f["signature"] == sig
                                                     and f.get("commit") == ent.get("commit"))] + [ent]
json.dump(kf, open(kfp, "w"), indent=1)
print("recorded", pid, sig, status)
