"""Common machinery: violations, results, the sharded Hypothesis driver, collect-then-shrink,
known findings, regression tier, evidence writing.  See DESIGN.md section 2."""
import hashlib
import json
import os
import signal
import sys
import time
import traceback

HERE = os.path.dirname(os.path.dirname(os.path.abspath(__file__)))
NSHARDS = int(os.environ.get("VERIF_SHARDS", "16"))
SLOWLOG = bool(os.environ.get("VERIF_SLOWLOG"))


class Violation(Exception):
    """Raised (or collected) by an oracle. sig names the root-cause bucket, detail is free text."""

    def __init__(self, sig, detail=""):
        super().__init__("%s: %s" % (sig, detail))
        self.sig = sig
        self.detail = str(detail)[:1500]


class Result:
    __slots__ = ("nontrivial", "labels", "violations", "extra")

    def __init__(self):
        self.nontrivial = False
        self.labels = []
        self.violations = []  # list of (sig, detail)
        self.extra = {}

    def label(self, *names):
        for n in names:
            if n not in self.labels:
                self.labels.append(n)

    def violate(self, sig, detail=""):
        for s, _ in self.violations:
            if s == sig:
                return
        self.violations.append((sig, str(detail)[:1500]))


class Prop:
    """Base class of a property check."""

    ID = "C00"
    RULE = ""
    ASSUMPTIONS = []
    N = {"quick": 1000, "thorough": 10000}
    BUDGET_S = {"quick": 150, "thorough": 3600}

    def strategy(self, tier):
        raise NotImplementedError

    def run(self, case):
        raise NotImplementedError

    def fixed_cases(self, tier):
        """deterministic extra cases (bundled examples...), run in addition to the generated ones"""
        return []


# ------------------------------------------------------------------------------------------------
# global state isolation


_PRISTINE = {}
_PRISTINE_X = {}


def reset_globals():
    import spydrnet as sdn
    from spydrnet.global_state import global_callback

    sdn.namespace_manager.default = "DEFAULT"
    # the callback registry as it was at import (only the namespace manager): a listener that an
    # earlier case could not remove must not change what later cases see (the leak itself is
    # reported by the case that caused it)
    if not _PRISTINE:
        for k, v in vars(global_callback).items():
            if k.startswith("_container_") and isinstance(v, (list, set)):
                _PRISTINE[k] = list(v)
    from spydrnet.global_state import global_service
    if "__lookups__" not in _PRISTINE_X:
        _PRISTINE_X["__lookups__"] = dict(global_service._registered_lookups)
    if global_service._registered_lookups != _PRISTINE_X["__lookups__"]:
        global_service._registered_lookups.clear()
        global_service._registered_lookups.update(_PRISTINE_X["__lookups__"])
    for k, v in _PRISTINE.items():
        cur = getattr(global_callback, k)
        if list(cur) != v:
            if isinstance(cur, list):
                cur[:] = v
            else:
                cur.clear()
                cur.update(v)
    # a case cut short by the watchdog can leave the manager's re-entrancy flag set (it is raised and
    # lowered without try/finally in apply_namespace); a leak *within* a case is still seen by that case
    if getattr(sdn.namespace_manager, "ignore_ns_change", False):
        sdn.namespace_manager.ignore_ns_change = False


def canonical_json(case):
    return json.dumps(case, sort_keys=True, separators=(",", ":"), default=str)


def case_hash(case):
    return hashlib.sha1(canonical_json(case).encode()).hexdigest()[:16]


def shard_seed(seed, pid, k):
    h = hashlib.sha256(("%d:%s:%d" % (seed, pid, k)).encode()).hexdigest()
    return int(h[:12], 16)


class _Stop(BaseException):
    pass


class _Found(Exception):
    pass


class CaseTimeout(BaseException):
    pass


def _on_case_alarm(signum, frame):
    import traceback as tb
    raise CaseTimeout("".join(tb.format_stack(frame)[-8:]))


def run_case(prop, case, limit=None, timeout_is_violation=True):
    """run one case in isolation; returns Result. Unexpected exceptions propagate (harness error).
    A case that runs longer than prop.CASE_TIMEOUT_S is reported as a violation '<ID>:case-timeout'
    (the stack at the time of the alarm is the detail)."""
    reset_globals()
    if limit is None:
        limit = getattr(prop, "CASE_TIMEOUT_S", 120)
    old = signal.signal(signal.SIGALRM, _on_case_alarm)
    signal.setitimer(signal.ITIMER_REAL, limit)
    try:
        res = prop.run(case)
    except CaseTimeout as e:
        res = Result()
        if timeout_is_violation:
            res.violate("%s:case-timeout" % prop.ID, "case still running after %ds; stack:\n%s" % (limit, e))
        else:
            res.label("fixed-case-over-time-budget(inconclusive)")
    finally:
        signal.setitimer(signal.ITIMER_REAL, 0)
        signal.signal(signal.SIGALRM, old)
        reset_globals()
    return res


# ------------------------------------------------------------------------------------------------
# worker: generate + collect


def _hyp_settings(n, shrink):
    from hypothesis import settings, Phase, HealthCheck, Verbosity

    phases = [Phase.generate]
    if shrink:
        phases.append(Phase.shrink)
    return settings(
        max_examples=n,
        database=None,
        deadline=None,
        phases=phases,
        report_multiple_bugs=False,
        suppress_health_check=[HealthCheck.too_slow, HealthCheck.data_too_large,
                               HealthCheck.filter_too_much, HealthCheck.large_base_example],
        verbosity=Verbosity.quiet,
    )


def worker_collect(args):
    """one shard: run n generated cases (+ its slice of the fixed cases); collect everything."""
    pid, tier, k, n, seed, budget_s = args
    from hypothesis import given, seed as hseed
    from vf.props import load

    prop = load(pid)
    t0 = time.time()
    out = {
        "shard": k, "evaluations": 0, "nontrivial_hashes": set(), "labels": {}, "samples": [],
        "violations": {},  # sig -> {"count":, "case":, "detail":, "shard":}
        "budget_hit": False, "error": None, "extra": {},
    }

    def account(case, res, origin):
        out["evaluations"] += 1
        for lab in res.labels:
            out["labels"][lab] = out["labels"].get(lab, 0) + 1
        for key, val in res.extra.items():
            out["extra"][key] = out["extra"].get(key, 0) + val
        if res.nontrivial:
            h = case_hash(case)
            if h not in out["nontrivial_hashes"]:
                out["nontrivial_hashes"].add(h)
                size = len(canonical_json(case))
                if len(out["samples"]) < 40:
                    out["samples"].append((size, case))
        for sig, detail in res.violations:
            ent = out["violations"].get(sig)
            if ent is None:
                out["violations"][sig] = {"count": 1, "case": case, "detail": detail, "shard": k,
                                          "origin": origin,
                                          "size": len(canonical_json(case))}
            else:
                ent["count"] += 1
                size = len(canonical_json(case))
                if size < ent["size"]:
                    ent.update(case=case, detail=detail, size=size, origin=origin)

    try:
        fixed = prop.fixed_cases(tier)
        for i, case in enumerate(fixed):
            if i % NSHARDS != k:
                continue
            # bundled examples can be large: a generous budget, and running out of it is
            # "inconclusive", never a violation
            res = run_case(prop, case, limit=getattr(prop, "FIXED_TIMEOUT_S", 900),
                           timeout_is_violation=False)
            account(case, res, "fixed")

        if n > 0:
            @hseed(shard_seed(seed, pid, k))
            @_hyp_settings(n, False)
            @given(prop.strategy(tier))
            def t(case):
                if time.time() - t0 > budget_s:
                    out["budget_hit"] = True
                    raise _Stop()
                tc = time.time()
                res = run_case(prop, case)
                if SLOWLOG and time.time() - tc > 2.0:
                    sys.stderr.write("SLOW %.1fs shard %d labels %r case %s\n" % (
                        time.time() - tc, k, res.labels, canonical_json(case)[:3000]))
                account(case, res, "generated")

            try:
                t()
            except _Stop:
                pass
    except Exception:
        out["error"] = traceback.format_exc()
    out["wall_s"] = time.time() - t0
    out["nontrivial_hashes"] = list(out["nontrivial_hashes"])
    return out


def worker_shrink(args):
    """re-run shard k until the first case showing signature sig, let Hypothesis shrink it
    (bounded by a SIGALRM budget), return the smallest failing case seen."""
    pid, tier, k, n, seed, sig, budget_s = args
    from hypothesis import given, seed as hseed
    from vf.props import load

    prop = load(pid)
    best = {"case": None, "size": None, "detail": ""}

    deadline = time.time() + budget_s

    @hseed(shard_seed(seed, pid, k))
    @_hyp_settings(n, True)
    @given(prop.strategy(tier))
    def t(case):
        if time.time() > deadline:
            raise _Stop()
        res = run_case(prop, case)
        for s, detail in res.violations:
            if s == sig:
                size = len(canonical_json(case))
                if best["size"] is None or size < best["size"]:
                    best.update(case=case, size=size, detail=detail)
                raise _Found(sig)

    try:
        t()
    except _Stop:
        pass
    except _Found:
        pass
    except Exception:
        # Hypothesis re-raises the final minimal failure (as _Found) or Flaky etc.; keep best
        pass
    return best


# ------------------------------------------------------------------------------------------------
# generic JSON ddmin used after Hypothesis' shrinker (and for fixed cases)


def json_shrink(prop, case, sig, budget_s=20.0):
    """greedy structural minimisation of a JSON case preserving the signature"""
    t0 = time.time()

    def fails(c):
        try:
            res = run_case(prop, c)
        except Exception:
            return False
        return any(s == sig for s, _ in res.violations)

    def paths(node, prefix=()):
        if isinstance(node, list):
            yield prefix, node
            for i, x in enumerate(node):
                yield from paths(x, prefix + (i,))
        elif isinstance(node, dict):
            for key in sorted(node):
                yield from paths(node[key], prefix + (key,))

    def get(node, path):
        for p in path:
            node = node[p]
        return node

    cur = json.loads(canonical_json(case))
    improved = True
    while improved and time.time() - t0 < budget_s:
        improved = False
        lists = [p for p, n in paths(cur)]
        for p in lists:
            try:
                lst = get(cur, p)
            except (IndexError, KeyError, TypeError):
                continue
            if not isinstance(lst, list):
                continue
            i = len(lst) - 1
            while i >= 0 and time.time() - t0 < budget_s:
                cand = json.loads(canonical_json(cur))
                try:
                    l2 = get(cand, p)
                except (IndexError, KeyError, TypeError):
                    break
                if isinstance(l2, list) and i < len(l2):
                    del l2[i]
                    if fails(cand):
                        cur = cand
                        improved = True
                i -= 1
    return cur


# ------------------------------------------------------------------------------------------------
# known findings


def load_known(pid):
    path = os.path.join(HERE, "known_findings.json")
    if not os.path.exists(path):
        return [], []
    data = json.load(open(path))
    open_, fixed = [], []
    for f in data.get("findings", []):
        if f.get("property") != pid:
            continue
        (open_ if f.get("status") == "open" else fixed).append(f)
    return open_, fixed


def write_json(path, obj):
    os.makedirs(os.path.dirname(path), exist_ok=True)
    tmp = path + ".tmp"
    with open(tmp, "w") as fh:
        json.dump(obj, fh, indent=1, sort_keys=True, default=str)
        fh.write("\n")
    os.replace(tmp, path)


def trim_sample(case, limit=6000):
    s = canonical_json(case)
    if len(s) <= limit:
        return case
    return {"truncated_json": s[:limit] + "...", "full_size": len(s)}
