"""Independent model of hierarchical references (occurrence paths) and of hierarchical connectivity.

Uses only the public read API of the IR; shares no code with spydrnet.util."""
from vf.model import UF


def seq_of(href):
    """tuple of items of an HRef, top first"""
    out = []
    h = href
    while h is not None:
        out.append(h.item)
        h = h.parent
    return tuple(reversed(out))


def key(seq):
    return tuple(id(x) for x in seq)


class HModel:
    def __init__(self, netlist, max_paths=20000):
        self.netlist = netlist
        self.paths = []  # tuples of instances, top first; includes (top,)
        top = netlist.top_instance
        self.top = top
        if top is None or not hasattr(top, "reference"):
            return
        stack = [(top,)]
        while stack:
            p = stack.pop()
            self.paths.append(p)
            if len(self.paths) > max_paths:
                raise RuntimeError("too many occurrence paths")
            R = p[-1].reference
            if R is not None:
                for ch in reversed(list(R.children)):
                    stack.append(p + (ch,))

    # ------------------------------------------------------------------ expected reference sets
    def hinstances(self, recursive=True, below=None):
        """occurrence paths strictly below `below` (default: the top)"""
        base = below if below is not None else (self.top,)
        n = len(base)
        out = []
        for p in self.paths:
            if len(p) > n and p[:n] == base and (recursive or len(p) == n + 1):
                out.append(p)
        return out

    def containers(self, recursive=True, below=None):
        """occurrence paths at or below `below` whose contents are enumerated"""
        base = below if below is not None else (self.top,)
        n = len(base)
        return [p for p in self.paths if p[:n] == base and (recursive or len(p) == n)]

    def hports(self, recursive=True, below=None):
        return [p + (P,) for p in self.containers(recursive, below) if p[-1].reference is not None
                for P in p[-1].reference.ports]

    def hpins(self, recursive=True, below=None):
        return [p + (P, pin) for p in self.containers(recursive, below)
                if p[-1].reference is not None for P in p[-1].reference.ports for pin in P.pins]

    def hcables(self, recursive=True, below=None):
        return [p + (C,) for p in self.containers(recursive, below) if p[-1].reference is not None
                for C in p[-1].reference.cables]

    def hwires(self, recursive=True, below=None):
        return [p + (C, w) for p in self.containers(recursive, below)
                if p[-1].reference is not None for C in p[-1].reference.cables for w in C.wires]

    def paths_of_instance(self, inst):
        return [p for p in self.paths if p[-1] is inst]

    def paths_of_definition(self, d):
        return [p for p in self.paths if p[-1].reference is d]

    def occurrences(self, inst):
        return sum(1 for p in self.paths if p[-1] is inst)

    # ------------------------------------------------------------------ names
    @staticmethod
    def name_of(seq):
        """expected HRef.name: slash-joined names below the top plus bus index"""
        import spydrnet as sdn

        items = list(seq)
        index = ""
        last = items[-1]
        if isinstance(last, sdn.Wire):
            cable = items[-2]
            if cable.is_array:
                index = "[%d]" % (cable.lower_index + list(cable.wires).index(last))
            items = items[:-1]
        elif isinstance(last, sdn.InnerPin):
            port = items[-2]
            if port.is_array:
                index = "[%d]" % (port.lower_index + list(port.pins).index(last))
            items = items[:-1]
        names = [x.name if x.name is not None else "" for x in items[1:]]
        return "/".join(names) + index

    # ------------------------------------------------------------------ validity after edits
    def still_valid(self, seq):
        """does the item sequence still describe an existing path in the current netlist"""
        import spydrnet as sdn

        nl = self.netlist
        if not seq or not isinstance(seq[0], sdn.Instance):
            return False
        top = seq[0]
        if nl.top_instance is not top:
            return False
        R = top.reference
        if R is None or R.library is None or R.library.netlist is None:
            return False
        if R.library.netlist.top_instance is not top:
            return False
        prev = top
        i = 1
        while i < len(seq) and isinstance(seq[i], sdn.Instance):
            ch = seq[i]
            if prev.reference is None or ch.parent is None or ch.parent is not prev.reference:
                return False
            prev = ch
            i += 1
        if i == len(seq):
            return True
        x = seq[i]
        if isinstance(x, (sdn.Port, sdn.Cable)):
            if x.definition is None or x.definition is not prev.reference:
                return False
            if i + 1 == len(seq):
                return True
            y = seq[i + 1]
            if isinstance(x, sdn.Port):
                return getattr(y, "port", None) is x
            return getattr(y, "cable", None) is x
        return False

    # ------------------------------------------------------------------ connectivity
    def connectivity(self):
        """union-find over hierarchical wires (path key, id(wire))"""
        uf = UF()
        self.wire_nodes = {}
        for p in self.paths:
            R = p[-1].reference
            if R is None:
                continue
            for C in R.cables:
                for w in C.wires:
                    node = (key(p), id(w))
                    uf.find(node)
                    self.wire_nodes[node] = p + (C, w)
            if len(p) >= 2:
                I = p[-1]
                for P in R.ports:
                    for ip in P.pins:
                        if ip not in I.pins:
                            continue
                        ow = I.pins[ip].wire
                        iw = ip.wire
                        if ow is not None and iw is not None and ow.cable is not None \
                                and iw.cable is not None:
                            uf.union((key(p), id(iw)), (key(p[:-1]), id(ow)))
        self.uf = uf
        groups = {}
        for node in self.wire_nodes:
            groups.setdefault(uf.find(node), set()).add(node)
        self.groups = groups
        return uf

    def net_of(self, path, wire):
        """set of node keys connected to hierarchical wire (path, wire)"""
        node = (key(path), id(wire))
        if node not in self.wire_nodes:
            return set()
        return self.groups[self.uf.find(node)]
