"""Design recipes: Hypothesis strategy (by construction, no rejection) + total builder.

A recipe is plain JSON (see DESIGN.md 2.2).  build() is total over the JSON shape: every index is
taken modulo the size of what it indexes, impossible requests (pin already connected, name already
used) are skipped, so structural shrinking of a recipe never produces a harness error."""
from hypothesis import strategies as st

DIRS = ["UNDEFINED", "INOUT", "IN", "OUT"]

SIMPLE = ["a", "b", "c", "d", "e", "f", "g", "h", "i", "j", "k", "m", "n", "p", "q", "r"]
COLLIDING = ["a", "A", "b", "B", "a_1", "aB", "Ab", "ab", "x", "X1"]


class Cfg:
    def __init__(self, **kw):
        self.max_libs = 3
        self.max_defs = 6          # total, over all libraries
        self.max_ports = 3
        self.max_cables = 4
        self.max_children = 5
        self.max_width = 3
        self.alphabet = SIMPLE
        self.bundle_alphabet = None  # names of ports/cables (default: alphabet)
        self.scale = True          # now and then sizes past 9: two-digit indices, >=10 siblings
        self.scale_many = 20       # 1 in N definitions gets 9-12 (17-20) ports / cables / children
        self.unnamed = False       # allow elements without name
        self.lower_index = True    # allow non-zero lower_index on multi-bit bundles
        self.scalar_lower_index = False  # allow non-zero lower index on scalars
        self.one_wide_arrays = True
        self.data = True           # user data on instances/definitions
        self.data_values = "json"  # 'json' nested | 'edif' (EDIF.properties list) | 'flat'
        self.top = "always"        # 'always' | 'maybe'
        self.top_modes = ["standalone"]  # + 'child', 'definition'
        self.leaf_heavy = False
        self.undefined_dir = True
        self.empty_bundles = False   # ports/cables with 0 pins/wires
        self.noref_children = False  # children without reference
        self.netlist_name = True
        self.reorder = True         # permute libraries / definitions after building
        self.downto = True
        self.data_all = False       # user data also on netlist, libraries, ports, cables
        self.late = False           # edits of definitions after they were instanced
        self.dense = False          # few leaves, most endpoints connected (nets cross boundaries)
        self.lib_monotone = False   # library index never decreases along the definition order
        self.twins = False          # same-named, same-shaped definitions in different libraries
        self.share = False          # bias children towards definitions that are already instanced
        self.__dict__.update(kw)


def _unique(draw, used, alphabet, unnamed, tag):
    """draw a name not yet in `used` (by construction: suffix on collision)"""
    if unnamed and draw(st.integers(0, 5)) == 0:
        return None
    base = draw(st.sampled_from(alphabet))
    name = base
    n = 0
    while name in used:
        n += 1
        suffix = "%s%d" % (tag, n)
        # a base at a length limit keeps its length (the suffix replaces its tail)
        name = (base[:len(base) - len(suffix)] + suffix) if len(base) > 200 else base + suffix
    used.add(name)
    return name


_json_leaf = st.one_of(st.integers(-3, 99), st.booleans(), st.sampled_from(["", "v", "V w", "0"]))
# {"__tuple__": [...]} is built as a tuple (an immutable container that may hold mutable ones)
_json_val = st.recursive(_json_leaf, lambda ch: st.one_of(
    st.lists(ch, max_size=3), st.dictionaries(st.sampled_from(["k", "K", "z"]), ch, max_size=2),
    st.fixed_dictionaries({"__tuple__": st.lists(ch, min_size=1, max_size=3)}),
    st.just([[[[[[["deep"]], {"k": [[1]]}]]]]])),   # seven levels of nesting
    max_leaves=4)


def thaw_value(v):
    """recipe value -> value stored in the netlist"""
    if isinstance(v, dict):
        if set(v) == {"__tuple__"}:
            return tuple(thaw_value(x) for x in v["__tuple__"])
        return {k: thaw_value(x) for k, x in v.items()}
    if isinstance(v, list):
        return [thaw_value(x) for x in v]
    return v


@st.composite
def _data(draw, cfg):
    if not cfg.data or draw(st.integers(0, 2)) != 0:
        return {}
    if cfg.data_values == "edif":
        props = draw(st.lists(st.fixed_dictionaries({
            "identifier": st.sampled_from(["INIT", "LOC", "WIDTH", "IS_INV", "box_type"]),
            "value": st.one_of(st.integers(0, 9), st.booleans(),
                               st.sampled_from(["8'h01", "SLICE_X0Y0", "", "a b"]),
                               # integers past one and two digits, 16, 32 and 64 bits; negative
                               st.sampled_from([10, 255, 65536, 2 ** 31, 2 ** 40, -1, -2 ** 31 - 5]))}),
            min_size=1, max_size=3, unique_by=lambda d: d["identifier"]))
        for pr in props:
            if draw(st.integers(0, 3)) == 0:
                pr["original_identifier"] = draw(st.sampled_from(["box.type", "is inv", "W-1"]))
        return {"EDIF.properties": props}
    if cfg.data_values == "flat":
        vals = _json_leaf
    else:
        vals = _json_val
    return draw(st.dictionaries(st.sampled_from(["K", "user.key", "INIT", "k2"]), vals, max_size=2))


@st.composite
def _bundle(draw, cfg, used, tag):
    name = _unique(draw, used, cfg.bundle_alphabet or cfg.alphabet, cfg.unnamed, tag)
    lo_w = 0 if cfg.empty_bundles and draw(st.integers(0, 9)) == 0 else 1
    w = draw(st.integers(lo_w, cfg.max_width))
    big = cfg.scale and cfg.max_width > 1 and draw(st.integers(0, 15)) == 0
    if big:
        w = draw(st.integers(10, 17)) if draw(st.integers(0, 3)) else draw(st.integers(31, 36))
    arr = w > 1 or (cfg.one_wide_arrays and w == 1 and draw(st.integers(0, 4)) == 0)
    lo = 0
    if cfg.lower_index and (arr or cfg.scalar_lower_index) and draw(st.booleans()):
        lo = draw(st.integers(0, 5)) if not (cfg.scale and draw(st.integers(0, 7)) == 0) \
            else draw(st.one_of(st.integers(8, 12), st.integers(28, 33)))
    downto = True if not cfg.downto else draw(st.integers(0, 4)) != 0
    out = {"name": name, "w": w, "lo": lo, "arr": bool(arr), "downto": downto}
    if cfg.data_all:
        out["data"] = draw(_data(cfg))
    return out


@st.composite
def recipes(draw, cfg=None):
    cfg = cfg or Cfg()
    nlibs = draw(st.integers(1, cfg.max_libs))
    ndefs = draw(st.integers(1, cfg.max_defs))
    if ndefs < 3 and cfg.max_defs >= 3 and draw(st.integers(0, 3)) != 0:
        ndefs = draw(st.integers(3, cfg.max_defs))
    nleaf = 1 if cfg.dense else draw(st.integers(1, max(1, ndefs // 2)))
    libs = []
    used_l = set()
    for _ in range(nlibs):
        libs.append({"name": _unique(draw, used_l, ["work", "prims", "lib"] if cfg.alphabet is SIMPLE
                                     else cfg.alphabet, cfg.unnamed, "_l"), "defs": []})
    used_d = [set() for _ in range(nlibs)]
    flat = []  # (lib index, def recipe)
    used_refs = []
    prev_li = 0
    for di in range(ndefs):
        li = draw(st.integers(prev_li if cfg.lib_monotone else 0, nlibs - 1))
        prev_li = li
        d = {"name": _unique(draw, used_d[li], cfg.alphabet, cfg.unnamed, "_d")}
        used_p, used_c, used_i = set(), set(), set()
        nports = draw(st.integers(0, cfg.max_ports))
        if cfg.scale and cfg.max_ports >= 3 and draw(st.integers(0, cfg.scale_many - 1)) == 0:
            nports = draw(st.integers(9, 12))
        d["ports"] = []
        twin = None
        if cfg.twins and flat and nlibs > 1 and draw(st.integers(0, 3)) == 0:
            cands = [(l0, d0) for l0, d0 in flat if l0 != li and d0["name"] is not None
                     and d0["name"] not in used_d[li]]
            if cands:
                twin = draw(st.sampled_from(cands))[1]
        if twin is not None:
            used_d[li].discard(d["name"])
            d["name"] = twin["name"]
            used_d[li].add(d["name"])
            d["ports"] = [dict(p) for p in twin["ports"]]
            nports = 0
        elif cfg.twins and flat and draw(st.integers(0, 2)) == 0:
            # same port shape as an earlier definition, own name
            d["ports"] = [dict(p) for p in draw(st.sampled_from(flat))[1]["ports"]]
            nports = 0
        for _ in range(nports):
            p = draw(_bundle(cfg, used_p, "_p"))
            dirs = [1, 2, 3] + ([0] if cfg.undefined_dir else [])
            p["dir"] = draw(st.sampled_from(dirs))
            d["ports"].append(p)
        leaf = di < nleaf or (draw(st.integers(0, 7)) == 0 if not cfg.leaf_heavy
                              else draw(st.integers(0, 1)) == 0)
        d["cables"] = []
        d["children"] = []
        d["conns"] = []
        if not leaf:
            ncab = draw(st.integers(0 if draw(st.integers(0, 5)) == 0 else 1, cfg.max_cables))
            if cfg.scale and cfg.max_cables >= 3 and draw(st.integers(0, cfg.scale_many - 1)) == 0:
                ncab = draw(st.integers(9, 12))
            for _ in range(ncab):
                d["cables"].append(draw(_bundle(cfg, used_c, "_c")))
            nch = draw(st.integers(0 if draw(st.integers(0, 5)) == 0 else 1,
                                   cfg.max_children)) if flat else 0
            if flat and cfg.scale and cfg.max_children >= 3 and draw(st.integers(0, cfg.scale_many - 1)) == 0:
                # ten or more siblings (now and then enough for "few of many" short-cuts: 8x)
                nch = draw(st.integers(10, 12)) if draw(st.integers(0, 2)) else draw(st.integers(17, 20))
            for _ in range(nch):
                if cfg.noref_children and draw(st.integers(0, 9)) == 0:
                    ref = None
                elif cfg.share and used_refs and draw(st.booleans()):
                    ref = draw(st.sampled_from(used_refs))
                else:
                    # bias to recent definitions for depth
                    ref = len(flat) - 1 - min(draw(st.integers(0, len(flat) - 1)),
                                              draw(st.integers(0, len(flat) - 1)))
                    used_refs.append(ref)
                d["children"].append({"name": _unique(draw, used_i, cfg.alphabet, cfg.unnamed, "_i"),
                                      "ref": ref, "data": draw(_data(cfg))})
            # connections: every endpoint draws a wire slot or None
            slots = []
            for ci, c in enumerate(d["cables"]):
                for b in range(c["w"]):
                    slots.append((ci, b))
            if slots:
                ends = []
                for pi, p in enumerate(d["ports"]):
                    for b in range(p["w"]):
                        ends.append(["p", pi, b])
                for chi, ch in enumerate(d["children"]):
                    if ch["ref"] is None:
                        continue
                    rd = flat[ch["ref"]][1]
                    for pi, p in enumerate(rd["ports"]):
                        for b in range(p["w"]):
                            ends.append(["i", chi, pi, b])
                for e in ends:
                    if cfg.dense:
                        s = draw(st.integers(0, len(slots) - 1)) if draw(st.integers(0, 7)) else -1
                    else:
                        s = draw(st.integers(-1, len(slots) - 1)) if draw(st.integers(0, 3)) else -1
                    if s >= 0:
                        d["conns"].append([e, list(slots[s])])
        d["data"] = draw(_data(cfg))
        flat.append((li, d))
        libs[li]["defs"].append(d)
        d["_flat"] = di
    rec = {"libs": libs}
    if cfg.data_all:
        rec["data"] = draw(_data(cfg))
        for lib in libs:
            lib["data"] = draw(_data(cfg))
    rec["name"] = draw(st.sampled_from(["top_nl", "n"])) if cfg.netlist_name else None
    if cfg.top == "always" or draw(st.integers(0, 4)) != 0:
        # prefer the last (deepest) definition
        t = len(flat) - 1
        if draw(st.integers(0, 5)) == 0:
            t = draw(st.integers(0, len(flat) - 1))
        rec["top"] = t
        rec["top_mode"] = draw(st.sampled_from(cfg.top_modes))
        rec["top_name"] = draw(st.sampled_from(["top", "t0"]))
    else:
        rec["top"] = None
    if cfg.late and draw(st.integers(0, 2)) != 0:
        rec["late"] = draw(st.lists(st.fixed_dictionaries({
            "k": st.sampled_from(["add_port", "create_pin", "add_pin_at", "reorder_ports",
                                  "reorder_pins"]),
            "d": st.integers(0, ndefs - 1), "p": st.integers(0, 3), "pos": st.integers(0, 3),
            "w": st.integers(1, 2), "perm": st.lists(st.integers(0, 5), min_size=1, max_size=4)}),
            min_size=1, max_size=4))
        rec["late_conns"] = draw(st.lists(st.tuples(
            st.integers(0, ndefs - 1),
            st.one_of(st.tuples(st.just("i"), st.integers(0, 5), st.integers(0, 3), st.integers(0, 3)),
                      st.tuples(st.just("p"), st.integers(0, 3), st.integers(0, 3))),
            st.tuples(st.integers(0, 3), st.integers(0, 3))), max_size=8))
        rec["late_conns"] = [[d, list(e), list(sl)] for d, e, sl in rec["late_conns"]]
    if cfg.reorder:
        rec["lib_perm"] = draw(st.lists(st.integers(0, 5), max_size=nlibs))
        rec["def_perm"] = draw(st.lists(st.integers(0, 5), max_size=3))
    return rec


# ------------------------------------------------------------------------------------------------


class Built:
    """handles into a built netlist"""

    def __init__(self):
        self.netlist = None
        self.defs = []      # flat order
        self.libs = []
        self.def_recipes = []


def _flat_defs(rec):
    out = []
    for li, lib in enumerate(rec.get("libs", [])):
        for d in lib.get("defs", []):
            out.append((d.get("_flat", 0), li, d))
    out.sort(key=lambda x: x[0])
    return out


def build(rec, policy=None):
    """recipe -> live netlist via the public API only"""
    import spydrnet as sdn

    if policy:
        sdn.namespace_manager.default = policy
    B = Built()
    nl = sdn.Netlist()
    if rec.get("name") is not None:
        nl.name = rec["name"]
    for k, v in (rec.get("data") or {}).items():
        nl[k] = thaw_value(v)
    B.netlist = nl
    for lib in rec.get("libs", []):
        L = nl.create_library()
        for k, v in (lib.get("data") or {}).items():
            L[k] = thaw_value(v)
        if lib.get("name") is not None:
            try:
                L.name = lib["name"]
            except ValueError:
                pass
        B.libs.append(L)
    flat = _flat_defs(rec)
    for _, li, d in flat:
        D = B.libs[li].create_definition()
        _try_name(D, d.get("name"))
        for k, v in d.get("data", {}).items():
            D[k] = thaw_value(v)
        B.defs.append(D)
        B.def_recipes.append(d)
        for p in d.get("ports", []):
            P = D.create_port()
            _try_name(P, p.get("name"))
            P.direction = getattr(sdn, DIRS[p.get("dir", 0) % 4])
            if p.get("w", 1):
                P.create_pins(p["w"])
            _bundle_attrs(P, p)
        for c in d.get("cables", []):
            C = D.create_cable()
            _try_name(C, c.get("name"))
            if c.get("w", 1):
                C.create_wires(c["w"])
            _bundle_attrs(C, c)
        me = len(B.defs) - 1
        for ch in d.get("children", []):
            I = D.create_child()
            _try_name(I, ch.get("name"))
            for k, v in ch.get("data", {}).items():
                I[k] = thaw_value(v)
            if ch.get("ref") is not None and me > 0:
                I.reference = B.defs[ch["ref"] % me]
        for conn in d.get("conns", []):
            try:
                e, (ci, wi) = conn
                if not D.cables:
                    continue
                C = D.cables[ci % len(D.cables)]
                if not C.wires:
                    continue
                W = C.wires[wi % len(C.wires)]
                pin = _endpoint(D, e)
                if pin is None or pin.wire is not None:
                    continue
                W.connect_pin(pin)
            except (ValueError, TypeError, IndexError):
                continue
    # late edits: change definitions that already have instances
    for ed in rec.get("late") or []:
        D = B.defs[ed.get("d", 0) % len(B.defs)]
        k = ed.get("k")
        try:
            if k == "add_port":
                P = sdn.Port()
                _try_name(P, "late_p%d" % len(D.ports))
                P.direction = sdn.IN
                P.create_pins(ed.get("w", 1))
                D.add_port(P, ed.get("pos", 0) % (len(D.ports) + 1))
            elif D.ports:
                P = D.ports[ed.get("p", 0) % len(D.ports)]
                if k == "create_pin":
                    P.create_pin()
                elif k == "add_pin_at":
                    P.create_pin()
                    pins = list(P.pins)
                    pins.insert(ed.get("pos", 0) % len(pins), pins.pop())
                    P.pins = pins
                elif k == "reorder_ports":
                    perm = ed.get("perm") or [0]
                    ps = list(D.ports)
                    D.ports = [ps[i] for i in sorted(range(len(ps)),
                                                     key=lambda i: (perm[i % len(perm)], i))]
                elif k == "reorder_pins":
                    perm = ed.get("perm") or [0]
                    ps = list(P.pins)
                    P.pins = [ps[i] for i in sorted(range(len(ps)),
                                                    key=lambda i: (perm[i % len(perm)], i))]
        except ValueError:
            pass
    for lc in rec.get("late_conns") or []:
        try:
            d, e, (ci, wi) = lc
            D = B.defs[d % len(B.defs)]
            if not D.cables:
                continue
            C = D.cables[ci % len(D.cables)]
            if not C.wires:
                continue
            pin = _endpoint(D, e)
            if pin is None or pin.wire is not None:
                continue
            C.wires[wi % len(C.wires)].connect_pin(pin)
        except (ValueError, TypeError, IndexError):
            continue
    # reorder
    lp = rec.get("lib_perm") or []
    if lp and len(B.libs) > 1:
        order = sorted(range(len(B.libs)), key=lambda i: (lp[i % len(lp)], i))
        nl.libraries = [B.libs[i] for i in order]
    dp = rec.get("def_perm") or []
    if dp:
        for L in B.libs:
            ds = list(L.definitions)
            if len(ds) > 1:
                order = sorted(range(len(ds)), key=lambda i: (dp[i % len(dp)], i))
                L.definitions = [ds[i] for i in order]
    t = rec.get("top")
    if t is not None and B.defs:
        T = B.defs[t % len(B.defs)]
        mode = rec.get("top_mode", "standalone")
        if mode == "definition":
            nl.top_instance = T
            if rec.get("top_name") is not None:
                nl.top_instance.name = rec["top_name"]
        elif mode == "child":
            # the top instance is also a child of a (new, otherwise unused) wrapper definition
            host = B.libs[0].create_definition()
            _try_name(host, "host_of_top")
            inst = host.create_child()
            _try_name(inst, rec.get("top_name"))
            inst.reference = T
            nl.top_instance = inst
            B.host = host
        else:
            inst = sdn.Instance()
            if rec.get("top_name") is not None:
                inst.name = rec["top_name"]
            inst.reference = T
            if mode == "set_top_instance":
                nl.set_top_instance(inst)     # the other public way to install a top (EBLIF reader)
            else:
                nl.top_instance = inst
    return B


def _try_name(el, name):
    if name is None:
        return
    try:
        el.name = name
    except ValueError:
        pass


def _bundle_attrs(B, r):
    for k, v in (r.get("data") or {}).items():
        B[k] = thaw_value(v)
    n = len(B.pins) if hasattr(B, "pins") else len(B.wires)
    if n <= 1:
        B.is_scalar = not r.get("arr", False)
    B.lower_index = r.get("lo", 0)
    B.is_downto = r.get("downto", True)


def _endpoint(D, e):
    if e[0] == "p":
        if not D.ports:
            return None
        P = D.ports[e[1] % len(D.ports)]
        if not P.pins:
            return None
        return P.pins[e[2] % len(P.pins)]
    if not D.children:
        return None
    I = D.children[e[1] % len(D.children)]
    R = I.reference
    if R is None or not R.ports:
        return None
    P = R.ports[e[2] % len(R.ports)]
    if not P.pins:
        return None
    return I.pins[P.pins[e[3] % len(P.pins)]]


def example_cases(tier, quick_limit=10000, thorough_limit=40000, formats=("EDIF_netlists", "verilog_netlists")):
    """bundled example netlists as fixed cases {"example": "<dir>/<file>"}"""
    import glob
    import os

    repo = os.environ.get("VERIF_REPO", "/repo")
    limit = quick_limit if tier == "quick" else thorough_limit
    out = []
    for d in formats:
        for f in sorted(glob.glob(os.path.join(repo, "example_netlists", d, "*.zip"))):
            if 200 < os.path.getsize(f) <= limit:
                out.append({"example": "%s/%s" % (d, os.path.basename(f))})
    return out


def load_example(case):
    """-> netlist or None (the readers' own failures are decided by C05/C06/C18)"""
    import os

    import spydrnet as sdn

    repo = os.environ.get("VERIF_REPO", "/repo")
    try:
        return sdn.parse(os.path.join(repo, "example_netlists", case["example"]))
    except Exception:  # noqa
        sdn.namespace_manager.default = "DEFAULT"
        return None


# ------------------------------------------------------------------------------------------------
# directed recipes past the size thresholds random designs rarely reach (fixed cases)

def _leaf(flat, name, ports=(("i", 1, 2), ("o", 1, 3))):
    return {"_flat": flat, "name": name, "cables": [], "children": [], "conns": [], "data": {},
            "ports": [{"name": n, "w": w, "lo": 0, "arr": w > 1, "downto": True, "dir": d} for n, w, d in ports]}


COLLIDING_FAMILY = ["n.1", "n/1", "n 1", "n$1", "n-1", "n+1", "n#1", "n@1", "n!1", "n~1", "n^1", "n|1", "n<1",
                    "n>1"]


def stress_recipes():
    """name -> recipe"""
    out = {}
    # (a) 9..14 siblings whose names all sanitise to the same identifier (counter gains a digit)
    for n in (9, 11, 12, 14):
        names = COLLIDING_FAMILY[:n]
        top = {"_flat": 1, "name": "top", "ports": [], "data": {}, "conns": [],
               "cables": [{"name": nm, "w": 1, "lo": 0, "arr": False, "downto": True} for nm in names],
               "children": [{"name": nm, "ref": 0, "data": {}} for nm in names]}
        out["colliding-%d" % n] = {"name": "n", "libs": [{"name": "work", "defs": [_leaf(0, "leaf"), top]}],
                                   "def_perm": [], "lib_perm": [], "top": 1, "top_mode": "standalone",
                                   "top_name": "top_i"}
    # (b) a library that already holds <name>_sdn_unique_0 .. _10 and a definition shared twice
    defs = [_leaf(0, "leaf"),
            {"_flat": 1, "name": "sub", "ports": [], "data": {}, "conns": [], "cables": [],
             "children": [{"name": "l0", "ref": 0, "data": {}}]}]
    for k in range(11):
        defs.append({"_flat": 2 + k, "name": "sub_sdn_unique_%d" % k, "ports": [], "data": {}, "conns": [],
                     "cables": [], "children": [{"name": "l0", "ref": 0, "data": {}}]})
    defs.append({"_flat": 13, "name": "top", "ports": [], "data": {}, "conns": [], "cables": [],
                 "children": [{"name": "s%d" % k, "ref": 1, "data": {}} for k in range(3)]})
    out["unique-suffixes-0-10-taken"] = {"name": "n", "libs": [{"name": "work", "defs": defs}], "def_perm": [],
                                         "lib_perm": [], "top": 13, "top_mode": "standalone",
                                         "top_name": "top_i"}
    # (c) six levels, 60-character instance names (paths beyond 255 characters), one net through all
    #     levels, a fan-out of 40 at the bottom
    defs = [_leaf(0, "leaf")]
    depth = 6
    for lvl in range(depth):
        kids = [{"name": ("u%d_" % lvl) + "x" * 56, "ref": lvl, "data": {}}]
        conns = [[["p", 0, 0], [0, 0]], [["i", 0, 0, 0], [0, 0]]]
        if lvl == 0:
            kids += [{"name": "fan%02d" % k, "ref": 0, "data": {}} for k in range(40)]
            conns += [[["i", 1 + k, 0, 0], [0, 0]] for k in range(40)]
        defs.append({"_flat": lvl + 1, "name": "lvl%d" % lvl, "data": {},
                     "ports": [{"name": "i", "w": 1, "lo": 0, "arr": False, "downto": True, "dir": 2}],
                     "cables": [{"name": "w", "w": 1, "lo": 0, "arr": False, "downto": True}],
                     "children": kids, "conns": conns})
    out["deep-long-names-fanout"] = {"name": "n", "libs": [{"name": "work", "defs": defs}], "def_perm": [],
                                     "lib_perm": [], "top": depth, "top_mode": "standalone",
                                     "top_name": "top_i"}
    return out
