"""C17 - EDIF export gives every object a legal, case-insensitively unique identifier"""
import os
import re
import tempfile

from hypothesis import strategies as st

from vf.core import Prop, Result
from vf.props.c10 import legal

ALPHA = list("aAbBzZ019_-[]/\\ $&.:()+*#@!~^{}|<>,;'?=")
BASES = ["a", "A", "ab", "AB", "Ab", "a b", "a_b", "a-b", "a/b", "a.b", "x[3]", "x_3_", "\\esc ", "1a", "&a",
         "_a", "a_sdn_1_", "a_sdn_2_", "A_SDN_1_", "$", "-", "clk", "CLK", "Clk"]
SCOPES = ["libraries", "cells", "ports", "nets", "instances"]


@st.composite
def name_sets(draw):
    n = draw(st.integers(1, 8))
    if draw(st.integers(0, 11)) == 0:
        n = draw(st.integers(11, 14))   # enough colliding siblings for a counter to gain a digit
    names = []
    long_prefix = None
    for _ in range(n):
        k = draw(st.integers(0, 9))
        if k <= 3:
            nm = draw(st.sampled_from(BASES))
        elif k <= 5 and names:
            # collide with an earlier name: case only, or equal after sanitising
            src = draw(st.sampled_from(names))
            m = draw(st.integers(0, 5))
            # (4, 5: one more spelling that sanitises to the same identifier as src)
            nm = [src.swapcase(), src.upper(), src.replace("_", " ").replace("-", "_"),
                  src + "_sdn_1_", src.replace("_", "."), src.replace("_", "/")][m]
        elif k == 6:
            # long names sharing their first 256 characters
            if long_prefix is None:
                long_prefix = draw(st.sampled_from(["x", "Lng_", "q-"])) * 1
                long_prefix = (long_prefix * 300)[:draw(st.integers(250, 262))]
            nm = long_prefix + draw(st.sampled_from(["", "a", "B", "_1", "tail" * 10]))
        elif k == 7:
            # names at the length limit: also not starting with a letter ('&' form, 256 allowed) and
            # ending in an existing counter that gains a digit when a case-variant sibling collides
            head = draw(st.sampled_from(["n", "n", "1", "_", "N"]))
            tail = draw(st.sampled_from(["", "", "_sdn_9_", "_sdn_99_"]))
            total = draw(st.integers(253, 258))
            nm = head * (total - len(tail)) + tail
        else:
            nm = "".join(draw(st.lists(st.sampled_from(ALPHA), min_size=1, max_size=8)))
        if nm and nm not in names:
            names.append(nm)
    if not names:
        names = ["a"]
    return names


def too_long(i):
    """the recorded finding is exactly 'cut to 256 characters without & prefix'; anything longer is a
    different failure and must not hide behind it"""
    return "too-long" if (len(i) == 256 and not i.startswith("&")) else "too-long:beyond-256"


def classify_pair(a, b):
    if a.lower() == b.lower():
        return "case-only"
    sa, sb = re.sub(r"[^0-9A-Za-z]", "_", a), re.sub(r"[^0-9A-Za-z]", "_", b)
    if sa.lower() == sb.lower():
        return "equal-after-sanitising"
    if len(a) > 255 and len(b) > 255 and a[:256] == b[:256]:
        return "same-first-256"
    return None


class C17(Prop):
    ID = "C17"
    RULE = ("for each namespace scope (libraries, cells, ports, nets, instances) a drawn set of 1-8 distinct "
            "sibling names over an adversarial alphabet (both cases, digits, _ - [ ] / \\ space $ & . : ( ) "
            "and more), lengths 1-300, built to collide: case-only pairs, pairs equal after sanitising, "
            "names sharing their first 256 characters, 253-258 character names, existing x_sdn_N_ names; "
            "netlist built under DEFAULT, composed to .edf; oracle: every assigned EDIF.identifier obeys "
            "the documented rule (written independently), identifiers pairwise different ignoring case in "
            "each scope, a rename with the original name is recorded whenever identifier != name, the file "
            "is accepted by the reader and every re-read element shows its original name; EdififyNames."
            "make_valid is also driven directly with siblings that already carry identifiers. non-trivial "
            "= some scope holds a colliding pair (case-only / equal after sanitising / same first 256) or a "
            "name longer than 255; distinct = distinct case JSON")
    ASSUMPTIONS = ['names contain no double quote, percent sign or newline (EDIF string syntax)',
                   "a scalar net whose name looks like a bus bit (x[3]) is re-read as bit 3 of bus x: "
                   "ambiguity of the EDIF bus naming convention, recorded as known finding"]
    N = {"quick": 6400, "thorough": 80000}
    CASE_TIMEOUT_S = 60

    def strategy(self, tier):
        return st.fixed_dictionaries({"mode": st.sampled_from(["compose", "compose", "direct"]),
                                      "scopes": st.fixed_dictionaries({k: name_sets() for k in SCOPES}),
                                      "pre": st.lists(st.integers(0, 7), max_size=3),
                                      "two_phase": st.integers(0, 2).map(lambda v: v == 0),
                                      "allow_long": st.integers(0, 5).map(lambda v: v == 0),
                                      "allow_buslike": st.integers(0, 5).map(lambda v: v == 0)})

    def run(self, case):
        res = Result()
        sets = {}
        for k, names in case["scopes"].items():
            out = []
            for nm in names:
                # the two recorded findings are excluded by construction in 5 of 6 cases
                if not case.get("allow_long") and len(nm) > 255:
                    nm = nm[:255]
                if not case.get("allow_buslike") and k == "nets" and re.search(r"\[\d+\]\Z", nm):
                    nm = nm + "x"
                if nm not in out:
                    out.append(nm)
            sets[k] = out
        if case.get("allow_long"):
            res.label("names>255-allowed")
        if case.get("allow_buslike"):
            res.label("bus-like-net-names-allowed")
        case = dict(case, scopes=sets)
        for k, names in sets.items():
            for i, a in enumerate(names):
                if len(a) > 255:
                    res.nontrivial = True
                    res.label("name>255")
                for b in names[i + 1:]:
                    c = classify_pair(a, b)
                    if c:
                        res.nontrivial = True
                        res.label("pair-" + c)
        if case["mode"] == "direct":
            self.direct(res, case)
        else:
            self._two_phase = bool(case.get("two_phase"))
            self.compose(res, sets)
        return res

    # -------------------------------------------------------------------------------------------
    def check_scope(self, res, tag, elements):
        ids = []
        for e in elements:
            if "EDIF.identifier" not in e.data:
                res.violate("C17:no-identifier-assigned:%s" % tag, repr(e.name)[:80])
                return False
            ids.append(e.data["EDIF.identifier"])
        for e, i in zip(elements, ids):
            if not legal(i):
                why = too_long(i) if len(i) > 255 + i.startswith("&") else (
                    "dash" if "-" in i else "other")
                res.violate("C17:illegal-identifier:%s" % why, "%s: name %r -> identifier %r (len %d)" % (
                    tag, e.name[:60], i[:60], len(i)))
                return False
        low = [i.lower() for i in ids]
        if len(set(low)) != len(low):
            dup = [i for i in ids if low.count(i.lower()) > 1]
            res.violate("C17:identifiers-collide-ignoring-case", "%s: %r (names %r)" % (
                tag, [d[:40] for d in dup[:4]], [e.name[:40] for e in elements][:6]))
            return False
        for e, i in zip(elements, ids):
            if i != e.name and not e.data.get("EDIF.rename", False):
                res.violate("C17:rename-not-recorded", "%s: name %r identifier %r" % (tag, e.name[:60], i[:60]))
                return False
        return True

    def compose(self, res, sets):
        import spydrnet as sdn

        two = bool(getattr(self, "_two_phase", False))

        def first(names):
            return names[:(len(names) + 1) // 2] if two else names

        def rest(names):
            return names[(len(names) + 1) // 2:] if two else []
        nl = sdn.Netlist(name="nl")
        libs = [nl.create_library(name=n) for n in first(sets["libraries"])]
        L = libs[0]
        leaf = L.create_definition(name="leaf_cell_0")
        leaf.create_port(name="I", pins=1, direction=sdn.IN)
        cell_names = [n for n in sets["cells"] if n != "leaf_cell_0"]
        cells = [L.create_definition(name=n) for n in first(cell_names)]
        top = cells[0] if cells else leaf
        if top is leaf:
            top = L.create_definition(name="top_cell_0")
            cells = [top]
        ports = [top.create_port(name=n, pins=1, direction=sdn.IN) for n in first(sets["ports"])]
        insts = [top.create_child(name=n, reference=leaf) for n in first(sets["instances"])]
        nets = [top.create_cable(name=n, wires=1) for n in first(sets["nets"])]
        nl.top_instance = sdn.Instance(name="top_inst")
        nl.top_instance.reference = top
        if two:
            # a first export records identifiers; new siblings arrive afterwards (an exported or
            # EDIF-read design that is edited and exported again)
            with tempfile.TemporaryDirectory() as td0:
                try:
                    sdn.compose(nl, os.path.join(td0, "first.edf"))
                except Exception as e:  # noqa
                    res.violate("C17:compose-raises:%s" % type(e).__name__, repr(e)[:300])
                    return
            try:
                libs += [nl.create_library(name=n) for n in rest(sets["libraries"])]
                cells += [L.create_definition(name=n) for n in rest(cell_names)]
                ports += [top.create_port(name=n, pins=1, direction=sdn.IN) for n in rest(sets["ports"])]
                insts += [top.create_child(name=n, reference=leaf) for n in rest(sets["instances"])]
                nets += [top.create_cable(name=n, wires=1) for n in rest(sets["nets"])]
            except ValueError:
                res.label("second-phase-name-refused")
                return
            res.label("exported-twice-with-new-siblings")
        for k, c in enumerate(nets):
            if k < len(ports):
                c.wires[0].connect_pin(ports[k].pins[0])
            if k < len(insts):
                c.wires[0].connect_pin(insts[k].pins[leaf.ports[0].pins[0]])
        with tempfile.TemporaryDirectory() as td:
            path = os.path.join(td, "n.edf")
            try:
                sdn.compose(nl, path)
            except Exception as e:  # noqa
                res.violate("C17:compose-raises:%s" % type(e).__name__, repr(e)[:300])
                return
            ok = self.check_scope(res, "libraries", libs)
            ok = self.check_scope(res, "cells", [leaf] + cells) and ok
            ok = self.check_scope(res, "ports", ports) and ok
            ok = self.check_scope(res, "nets", nets) and ok
            ok = self.check_scope(res, "instances", insts) and ok
            if not ok:
                return
            try:
                nl2 = sdn.parse(path)
            except Exception as e:  # noqa
                sdn.namespace_manager.default = "DEFAULT"
                res.violate("C17:exported-file-not-readable:%s" % type(e).__name__, repr(e)[:300])
                return
        # every re-read element shows the original name (match by identifier)
        def by_id(elements):
            return {e.data.get("EDIF.identifier", "").lower(): e for e in elements}
        m = by_id(nl2.libraries)
        for lib in libs:
            e = m.get(lib["EDIF.identifier"].lower())
            if e is None or e.name != lib.name:
                res.violate("C17:reread-name-differs:library", "%r -> %r" % (lib.name[:60], e and e.name[:60]))
                return
        L2 = m[L["EDIF.identifier"].lower()]
        md = by_id(L2.definitions)
        for d in [leaf] + cells:
            e = md.get(d["EDIF.identifier"].lower())
            if e is None or e.name != d.name:
                res.violate("C17:reread-name-differs:cell", "%r -> %r" % (d.name[:60], e and e.name[:60]))
                return
        top2 = md[top["EDIF.identifier"].lower()]
        for tag, orig, got in (("port", ports, top2.ports), ("instance", insts, top2.children)):
            mm = by_id(got)
            for o in orig:
                e = mm.get(o["EDIF.identifier"].lower())
                if e is None or e.name != o.name:
                    res.violate("C17:reread-name-differs:%s" % tag, "%r -> %r" % (o.name[:60],
                                                                                e and e.name[:60]))
                    return
        got_names = sorted(c.name for c in top2.cables)
        want_names = sorted(c.name for c in nets)
        if got_names != want_names:
            buslike = [n for n in want_names if re.search(r"\[\d+\]\Z", n)]
            if buslike:
                res.violate("C17:scalar-net-named-like-bus-bit-reread-as-bus", repr(buslike[:3]))
            else:
                res.violate("C17:reread-name-differs:net", "%r -> %r" % (
                    [n[:30] for n in want_names][:6], [n[:30] for n in got_names][:6]))

    def direct(self, res, case):
        import spydrnet as sdn
        from spydrnet.composers.edif.edifify_names import EdififyNames

        names = case["scopes"]["instances"]
        objs = [sdn.Instance(name=n) for n in names]
        # some siblings already carry an identifier (a netlist that was exported before)
        for k in case["pre"]:
            o = objs[k % len(objs)]
            if "EDIF.identifier" not in o.data:
                o["EDIF.identifier"] = ["a", "A_sdn_1_", "a_b", "ab"][k % 4]
        ed = EdififyNames()
        fresh = []
        for o in objs:
            if "EDIF.identifier" in o.data:
                continue
            try:
                ident = ed.make_valid(o, objs)
            except Exception as e:  # noqa
                res.violate("C17:make_valid-raises:%s" % type(e).__name__, repr(e)[:300])
                return
            o["EDIF.identifier"] = ident
            fresh.append(o)
            if ident != o.name:
                o["EDIF.rename"] = True
        for o in fresh:
            i = o["EDIF.identifier"]
            if not legal(i):
                why = too_long(i) if len(i) > 255 + i.startswith("&") else ("dash" if "-" in i else "other")
                res.violate("C17:illegal-identifier:%s" % why, "make_valid: name %r -> %r (len %d)" % (
                    o.name[:60], i[:60], len(i)))
                return
        # a freshly assigned identifier must differ (ignoring case) from every other sibling's
        for o in fresh:
            mine = o["EDIF.identifier"].lower()
            for other in objs:
                if other is not o and other["EDIF.identifier"].lower() == mine:
                    res.violate("C17:identifiers-collide-ignoring-case", "make_valid: %r (name %r) vs sibling "
                                "name %r identifier %r%s" % (
                                    o["EDIF.identifier"][:40], o.name[:40], other.name[:40],
                                    other["EDIF.identifier"][:40],
                                    "" if other in fresh else " (pre-existing identifier)"))
                    return

PROP = C17()
