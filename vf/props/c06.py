"""C06 - the Verilog reader builds exactly the design the source describes"""
import glob
import os
import tempfile

from hypothesis import strategies as st

from vf import gen_verilog, model
from vf.core import Prop, Result


def parse_text(text, suffix=".v"):
    import spydrnet as sdn

    with tempfile.TemporaryDirectory() as td:
        path = os.path.join(td, "t" + suffix)
        with open(path, "w") as fh:
            fh.write(text)
        return sdn.parse(path)


def compare_views(res, prefix, want, got, ordered_ports=False):
    """expected vs observed view; reports the first difference per category"""
    if want["top"] != got["top"]:
        res.violate("%s:top-differs" % prefix, "expected %r, got %r" % (want["top"], got["top"]))
    wm, gm = want["mods"], got["mods"]
    if set(wm) != set(gm):
        res.violate("%s:definition-set-differs" % prefix, "missing %r extra %r" % (
            sorted(set(wm) - set(gm)), sorted(set(gm) - set(wm))))
        return
    for name in sorted(wm):
        a, b = wm[name], gm[name]
        if a["lib"] != b["lib"]:
            res.violate("%s:library-of-definition" % prefix, "%s: %r vs %r" % (name, a["lib"], b["lib"]))
        if a["prim"] != b["prim"]:
            res.violate("%s:primitive-flag" % prefix, "%s: %r vs %r" % (name, a["prim"], b["prim"]))
        pa = {p.get("key", p["name"]): {k: p[k] for k in ("dir", "w", "lo")} for p in a["ports"]}
        pb = {p.get("key", p["name"]): {k: p[k] for k in ("dir", "w", "lo")} for p in b["ports"]}
        if pa != pb:
            res.violate("%s:ports-differ" % prefix, "%s: %s" % (name, "; ".join(model.diff(pa, pb))))
        elif ordered_ports and [p.get("key", p["name"]) for p in a["ports"]] != \
                [p.get("key", p["name"]) for p in b["ports"]]:
            res.violate("%s:port-order-differs" % prefix, "%s: %r vs %r" % (
                name, [p["name"] for p in a["ports"]], [p["name"] for p in b["ports"]]))
        if a["cables"] != b["cables"]:
            res.violate("%s:cables-differ" % prefix, "%s: %s" % (
                name, "; ".join(model.diff(a["cables"], b["cables"]))))
        if a["insts"] != b["insts"]:
            d = model.diff(a["insts"], b["insts"])
            what = "params" if any("params" in x for x in d) else (
                "attrs" if any("attrs" in x for x in d) else "instances")
            res.violate("%s:%s-differ" % (prefix, what), "%s: %s" % (name, "; ".join(d)))
        if a["conn"] != b["conn"]:
            res.violate("%s:connectivity-differs" % prefix, "%s: %s" % (
                name, "; ".join(model.diff(a["conn"], b["conn"]))))
        if a["assigns"] != b["assigns"]:
            res.violate("%s:assigns-differ" % prefix, "%s: %r vs %r" % (name, a["assigns"][:3],
                                                                        b["assigns"][:3]))


class C06(Prop):
    ID = "C06"
    RULE = ("abstract designs (1-4 modules + 1-3 primitives, exactly one root) drawn by Hypothesis and "
            "rendered by the independent writer vf/gen_verilog.py: any module order (use before/after "
            "declaration), `celldefine primitives or never-declared (inferred) ones, header-only or ANSI "
            "ports, wire/reg ranges [msb:lsb] with arbitrary lsb, multi-name declarations, implicit nets, "
            "named and positional port maps, connection expressions = identifier, bit-select, part-select, "
            "concatenation, 1'b0/1'b1, empty .p(), widths up to the port width (partial, LSB aligned), "
            "escaped identifiers, header aliases .p({a, b}) with single-bit items, line/block comments incl. a "
            "trailing one, parameters #(.K(V)), (* *) "
            "attributes in one or several groups, equal-width assign; oracle: bit-level view of the parsed "
            "netlist (definitions + library, ports dir/width/base, cables range, instance.port bit k <-> "
            "bit k of the expression from the LSB end, assigns, parameters, attributes, primitive flag, top "
            "= the single root) == the writer's expected view, wf-strict. Plus bundled .v examples (wf, "
            "self-consistency). non-trivial = >=1 concatenation or part-select and >=1 module used "
            "before its declaration; distinct = distinct case JSON")
    ASSUMPTIONS = ["module ports are based at 0, ranges are downto, assign sides have equal width",
                   "a never-declared module is used either by name everywhere or by position everywhere",
                   "the order of a definition's ports is not compared (only used through positional maps)"]
    N = {"quick": 7200, "thorough": 60000}
    CASE_TIMEOUT_S = 60

    def strategy(self, tier):
        big = tier == "thorough"
        return gen_verilog.designs(max_mods=5 if big else 4, max_insts=5 if big else 4)

    def fixed_cases(self, tier):
        limit = 10000 if tier == "quick" else 10 ** 9
        repo = os.environ.get("VERIF_REPO", "/repo")
        files = sorted(glob.glob(os.path.join(repo, "example_netlists", "verilog_netlists", "*.v.zip")))
        return [{"example": os.path.basename(f)} for f in files if 200 < os.path.getsize(f) <= limit]

    def run(self, case):
        import spydrnet as sdn

        res = Result()
        if "example" in case:
            repo = os.environ.get("VERIF_REPO", "/repo")
            res.label("bundled-example")
            try:
                nl = sdn.parse(os.path.join(repo, "example_netlists", "verilog_netlists", case["example"]))
            except Exception as e:  # noqa
                res.violate("C06:example-rejected:%s" % case["example"], repr(e)[:300])
                return res
            res.nontrivial = True
            for code, detail in model.wf(nl, strict=True):
                res.violate("C06:example:" + code, "%s: %s" % (case["example"], detail))
            return res
        d = {k: v for k, v in case.items()}
        if not gen_verilog.in_domain(d):
            res.label("out-of-domain(shrunk)")
            return res
        text, expected, info = gen_verilog.text_of(d)
        if (info["concat"] or info["slice"]) and info["used_before_decl"]:
            res.nontrivial = True
        for k, v in info.items():
            if v:
                res.label(k)
        try:
            nl = parse_text(text)
        except Exception as e:  # noqa
            sdn.namespace_manager.default = "DEFAULT"
            res.violate("C06:reader-rejects-valid-source:%s" % type(e).__name__, "%r\n%s" % (e, text[:1200]))
            return res
        got = gen_verilog.view(nl)
        compare_views(res, "C06", expected, got)
        if res.violations:
            sig, det = res.violations[0]
            res.violations[0] = (sig, det + "\n" + text[:1500])
        for code, detail in model.wf(nl, strict=True):
            res.violate("C06:" + code, detail)
        return res


PROP = C06()
