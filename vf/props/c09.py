"""C09 - flatten removes all hierarchy and preserves leaf-level connectivity"""
from vf import gen_ir, model
from vf.core import Prop, Result


def leaf_data(inst):
    """user data of a leaf instance; the EDIF identifier is naming metadata that flatten has to renew
    (the instance moves into another scope), not data"""
    return model.data_of(inst, drop=(".NS", ".NAME", "EDIF.identifier"))


class C09(Prop):
    ID = "C09"
    RULE = ("named design recipes (<=3 libraries, <=7 definitions, depth<=5, pass-through and wire-only "
            "cells, inner nets tied to several ports, ports unconnected inside/outside, buses, late "
            "port/pin edits) built through the public API, made unique by uniquify when a non-leaf "
            "definition is shared, then spydrnet.flatten.flatten; oracle = independent elaboration "
            "before (leaf occurrences by slash path, endpoint partition) against the flat top "
            "definition read directly after (children, definitions, data, partition of leaf pin bits and "
            "top port bits), wf-core; optionally a second stage: a definition that was a leaf in the first "
            "flatten gets a child and a net through the API, then uniquify + flatten are judged again. non-trivial = hierarchy depth >= 2 and at least one net spanning "
            ">= 2 hierarchical wires (crosses a port boundary); distinct = distinct recipe JSON")
    ASSUMPTIONS = ["leaf = definition without children and without cables (Definition.is_leaf)",
                   "flatten/uniquify module-level counters are reset before each case",
                   "wf-core: reference sets may keep parent-less removed shell instances (public "
                   "remove_child behaviour)"]
    N = {"quick": 8000, "thorough": 80000}

    def cfg(self, tier):
        big = tier == "thorough"
        return gen_ir.Cfg(unnamed=False, max_defs=9 if big else 7, max_children=5 if big else 4,
                          max_width=4 if big else 3, share=True, late=True, top="always",
                          top_modes=["standalone", "definition"], data_values="json",
                          alphabet=["a", "b", "c", "d", "e", "f", "g", "h", "Stage0", "U1", "k", "m", "n",
                                    "p", "q", "R_x"])

    def strategy(self, tier):
        from hypothesis import strategies as st
        from vf import gen_verilog

        api = st.tuples(gen_ir.recipes(self.cfg(tier)), st.sampled_from(["DEFAULT", "DEFAULT", "EDIF"]),
                        st.booleans(), st.one_of(st.none(), st.integers(0, 30))).map(
            lambda t: dict(t[0], policy=t[1], via_clone=t[2], grow=t[3]))
        ecfg = gen_ir.Cfg(unnamed=False, alphabet=["a", "b", "c", "d", "clk", "data", "q", "sel", "Top",
                                                   "U1", "n_1", "x y", "a.b", "3d", "net$1", "_u"],
                          max_defs=6, max_children=4, max_width=3, share=True, top="always",
                          lib_monotone=True, reorder=False, top_modes=["standalone"], data_values="edif")
        rd = st.one_of(
            st.fixed_dictionaries({"kind": st.just("edif"), "design": gen_ir.recipes(ecfg),
                                   "stream": st.lists(st.integers(0, 63), min_size=8, max_size=20)}),
            st.fixed_dictionaries({"kind": st.just("verilog"), "design": gen_verilog.designs()}))
        return st.one_of(api, api, api, st.fixed_dictionaries({"reader": rd, "via_clone": st.booleans()}))

    def fixed_cases(self, tier):
        # (the colliding-name recipes have "/" in instance names: outside flatten's naming domain)
        stress = [dict(r, policy=pol, via_clone=False) for k, r in sorted(gen_ir.stress_recipes().items())
                  if not k.startswith("colliding") for pol in ("DEFAULT", "EDIF")]
        return stress + gen_ir.example_cases(tier)

    def run(self, case):
        import spydrnet.uniquify as U
        import spydrnet.flatten as F

        res = Result()
        U.MOD_NAME_UID = 0
        F.mod_name_uid = 0
        F.unique_number = 0
        if "example" in case:
            nl = gen_ir.load_example(case)
            res.label("bundled-example")
            usable = nl is not None and nl.top_instance is not None and not model.wf(nl, strict=True)
            if usable:
                for L in nl.libraries:
                    for D in L.definitions:
                        for x in list(D.children) + list(D.cables):
                            if x.name is None or "/" in x.name:
                                usable = False
            if not usable:
                res.label("example-not-usable")
                return res
        elif "reader" in case:
            from vf.props.c07 import C07
            nl = C07.read_source(res, case["reader"])
            usable = nl is not None and nl.top_instance is not None
            if usable:
                for L in nl.libraries:
                    for D in L.definitions:
                        for x in list(D.children) + list(D.cables):
                            if x.name is None or "/" in x.name:
                                usable = False
            if not usable:
                res.label("reader-netlist-not-usable")
                return res
            res.label("reader-built-" + case["reader"]["kind"])
        else:
            B = gen_ir.build(case, policy=case.get("policy", "DEFAULT"))
            nl = B.netlist
            res.label("policy-" + case.get("policy", "DEFAULT"))
            pre = model.wf(nl, strict=True)
            if pre:
                raise RuntimeError("generator produced ill-formed netlist: %r" % pre[:3])
        if case.get("via_clone"):
            try:
                nl = nl.clone()
                res.label("on-a-clone")
            except Exception:  # noqa (C07's business)
                pass
        if not self.flatten_and_judge(res, nl) or res.violations:
            return res
        # second stage: a definition that was a leaf during the first flatten gets contents through the
        # public API; flatten must then dissolve its (now hierarchical) instances as well
        if case.get("grow") is not None and self.grow_a_leaf(nl, case["grow"]):
            res.label("second-flatten-after-leaf-grew")
            self.flatten_and_judge(res, nl, tag=":second")
        return res

    @staticmethod
    def grow_a_leaf(nl, i):
        T = nl.top_instance.reference
        used = []
        for ch in T.children:
            if ch.reference is not None and not any(ch.reference is u for u in used):
                used.append(ch.reference)
        if not used:
            return False
        L = used[i % len(used)]
        others = [D for lib in nl.libraries for D in lib.definitions
                  if D is not L and D is not T and model.is_leaf_def(D)]
        if not others or not model.is_leaf_def(L):
            return False
        M = others[i % len(others)]
        g = L.create_child(name="grown", reference=M)
        w = L.create_cable(name="grown_net").create_wire()
        for P in L.ports:
            if P.pins:
                w.connect_pin(P.pins[0])
                break
        for P in M.ports:
            if P.pins:
                w.connect_pin(g.pins[P.pins[0]])
                break
        return True

    def flatten_and_judge(self, res, nl, tag=""):
        """uniquify, elaborate independently, flatten, compare; False when the case is not judged"""
        import spydrnet.uniquify as U
        import spydrnet.flatten as F

        ndefs = sum(len(L.definitions) for L in nl.libraries)
        try:
            U.uniquify(nl)
        except Exception as e:  # noqa  (C08's business; not judged here)
            res.label("uniquify-raised")
            return False
        if sum(len(L.definitions) for L in nl.libraries) != ndefs:
            res.label("via-uniquify")
        else:
            res.label("unique-by-construction")
        before = model.elab(nl)
        insts = {}
        # leaf occurrences: path -> (definition object, data)
        top = nl.top_instance

        def walk(I, path):
            for pos, ch in enumerate(I.reference.children):
                p = path + (ch.name,)
                if model.is_leaf_def(ch.reference):
                    insts[p] = (ch.reference, leaf_data(ch))
                else:
                    walk(ch, p)

        walk(top, ())
        depth = max([len(p) for p in before["occ"]] + [0])
        crossing = [c for c in before["classes"] if len({p for p, _ in c}) >= 2]
        if depth >= 2 and crossing and not tag:
            res.nontrivial = True
        if any(len({len(p) for p, _ in c}) >= 3 for c in crossing):
            res.label("net-crosses>=2-levels")
        if depth >= 3:
            res.label("depth>=3")
        T0 = nl.top_instance.reference
        self._names_before = {x.name for x in list(T0.children) + list(T0.cables) if x.name}
        try:
            F.flatten(nl)
        except Exception as e:  # noqa
            res.violate("C09:flatten-raises%s:%s" % (tag, type(e).__name__), repr(e))
            return True
        T = nl.top_instance.reference
        got = {}
        for ch in T.children:
            R = ch.reference
            if R is None or not model.is_leaf_def(R):
                res.violate("C09:hierarchical-instance-remains" + tag, repr(ch.name))
                continue
            if ch.name in got:
                res.violate("C09:duplicate-leaf-name" + tag, repr(ch.name))
            got[ch.name] = ch
        want = {"/".join(p): v for p, v in insts.items()}
        if set(got) != set(want):
            res.violate("C09:leaf-set-differs" + tag, "missing %r extra %r" % (
                sorted(set(want) - set(got))[:4], sorted(set(got) - set(want))[:4]))
        else:
            for name, (R, data) in want.items():
                ch = got[name]
                if ch.reference is not R:
                    res.violate("C09:leaf-definition-changed" + tag, name)
                if leaf_data(ch) != data:
                    res.violate("C09:leaf-data-changed" + tag, "%s: %r -> %r" % (name, data, leaf_data(ch)))
        # partition read directly off the flat top definition
        port_pos = {}
        for pi, P in enumerate(T.ports):
            for bi, p in enumerate(P.pins):
                port_pos[id(p)] = ("top", pi, bi)
        groups = []
        seen = set()
        dangling = False
        for C in T.cables:
            for w in C.wires:
                g = set()
                for p in w.pins:
                    if model.is_outer(p):
                        I = p.instance
                        ip = p.inner_pin
                        if I is None or ip is None or I.parent is not T or I.name is None:
                            dangling = True
                            continue
                        P = ip.port
                        pi = model._index_is(I.reference.ports, P)
                        bi = model._index_is(P.pins, ip)
                        g.add(("leaf", tuple(I.name.split("/")), pi, bi))
                    else:
                        e = port_pos.get(id(p))
                        if e is None:
                            dangling = True
                        else:
                            g.add(e)
                if g:
                    groups.append(frozenset(g))
                    seen |= g
        if dangling:
            res.violate("C09:flat-wire-lists-foreign-pin" + tag)
        for e in port_pos.values():
            if e not in seen:
                groups.append(frozenset([e]))
        for ch in T.children:
            R = ch.reference
            if R is None or ch.name is None:
                continue
            for pi, P in enumerate(R.ports):
                for bi, ip in enumerate(P.pins):
                    e = ("leaf", tuple(ch.name.split("/")), pi, bi)
                    if e not in seen:
                        groups.append(frozenset([e]))
        after = frozenset(groups)
        # (second stage: instance names of the flat top already contain "/"; compare by joined path)
        flat = lambda e: e if e[0] != "leaf" else ("leaf", tuple("/".join(e[1]).split("/")), e[2], e[3])  # noqa
        nets_before = frozenset(frozenset(flat(e) for e in g) for g in before["nets"])
        if after != nets_before and not res.violations:
            a, b = nets_before, after
            res.violate("C09:connectivity-changed" + tag, "only before: %r ; only after: %r" % (
                [sorted(x) for x in list(a - b)[:2]], [sorted(x) for x in list(b - a)[:2]]))
        for code, detail in model.wf(nl, strict=False):
            res.violate("C09:" + code, detail)
        # well-formed also means: the flat top answers exact-name queries like a scan of its members
        # (dissolved instances and their inner cables are gone from the name index)
        import spydrnet as sdn
        names = set(self._names_before) | {x.name for x in list(T.children) + list(T.cables) if x.name}
        for nm in sorted(names):
            if "*" in nm or "?" in nm:
                continue
            for tag, lst, fn in (("instances", T.children, sdn.get_instances), ("cables", T.cables,
                                                                               sdn.get_cables)):
                scan = sorted(id(x) for x in lst if x.name == nm)
                try:
                    got = sorted(id(x) for x in fn(T, nm))
                except Exception as e:  # noqa
                    res.violate("C09:lookup-raises-after-flatten:%s" % type(e).__name__, repr(e))
                    return True
                if got != scan:
                    res.violate("C09:lookup-differs-from-scan-after-flatten:%s" % tag,
                                "%r: lookup %d, scan %d" % (nm, len(got), len(scan)))
                    return True
        return True


PROP = C09()
