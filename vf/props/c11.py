"""C11 - hierarchical references enumerate each occurrence exactly once and are canonical"""
from collections import Counter

from hypothesis import strategies as st

from vf import gen_ir, model, ops
from vf.core import Prop, Result
from vf.hmodel import HModel, seq_of, key

EDIT_WEIGHTS = {n: 0 for n in ops.STRUCT_OPS}
EDIT_WEIGHTS.update({"def.remove_child": 6, "def.remove_port": 3, "def.remove_cable": 3,
                     "port.remove_pin": 2, "cable.remove_wire": 2, "inst.reference=": 4,
                     "inst.del_reference": 1, "nl.top=": 2, "def.remove_children_from": 2,
                     "lib.remove_definition": 1, "def.create_child": 2, "el.name=": 4, "cable.wires=": 2,
                     "port.pins=": 2, "bundle.lower_index=": 2})

FUNCS = ["get_hinstances", "get_hports", "get_hpins", "get_hcables", "get_hwires"]


def kind_of(seq):
    return type(seq[-1]).__name__


def pre_transform(nl, kind, res):
    """the netlist the queries run on may itself be the product of another feature"""
    import spydrnet.uniquify as U

    try:
        if kind == "clone":
            nl = nl.clone()
        elif kind == "uniquify":
            U.MOD_NAME_UID = 0
            U.uniquify(nl)
        elif kind == "clone+uniquify":
            nl = nl.clone()
            U.MOD_NAME_UID = 0
            U.uniquify(nl)
        elif kind == "flatten":
            import spydrnet.flatten as F
            # flatten's domain (C09): named instances and cables
            k = 0
            for L in nl.libraries:
                for D in L.definitions:
                    for x in list(D.children) + list(D.cables):
                        if x.name is None:
                            k += 1
                            x.name = "auto%d" % k
            if any("/" in x.name for L in nl.libraries for D in L.definitions
                   for x in list(D.children) + list(D.cables)):
                return nl
            U.MOD_NAME_UID = 0
            F.mod_name_uid = 0
            F.unique_number = 0
            U.uniquify(nl)
            F.flatten(nl)
        else:
            return nl
        res.label("netlist-is-product-of-" + kind)
    except Exception:  # noqa (C07/C08/C09 decide the transforms)
        res.label("pre-transform-raised")
        return None   # possibly half transformed: nothing to query
    return nl


class C11(Prop):
    ID = "C11"
    RULE = ("design recipes (shared definitions at several depths, leaf and wire-only cells, unnamed "
            "items, array and scalar bundles, children without reference, top standalone/from "
            "definition) built through the API; every get_h* function is queried with the netlist "
            "(recursive on/off) and with every definition, instance, port, pin, cable, wire and a sample "
            "of hierarchical references as root; oracle = independent occurrence-path enumeration "
            "(multiset equality of item sequences, is_valid, name, flyweight identity and hash); then a "
            "drawn edit (remove child/port/cable/pin/wire, re-point, change top) and is_valid / is_unique "
            "of every reference obtained before compared with the model of the edited netlist. "
            "non-trivial = some definition has >=2 occurrences at depth >=2; distinct = distinct case JSON")
    ASSUMPTIONS = ["is_unique is taken to mean: valid and the last instance on the path occurs exactly "
                   "once below the top (reconstructed from the HRef documentation and code)",
                   "patterns are not used here (C13 decides filters)"]
    N = {"quick": 4800, "thorough": 60000}
    CASE_TIMEOUT_S = 60

    def cfg(self, tier):
        big = tier == "thorough"
        return gen_ir.Cfg(unnamed=True, max_defs=8 if big else 7, max_children=5 if big else 4,
                          max_width=3, share=True, late=False, dense=True, top="always", noref_children=True,
                          top_modes=["standalone", "definition", "child", "set_top_instance"], data=False)

    def strategy(self, tier):
        step = ops.op_strategy(EDIT_WEIGHTS)
        return st.fixed_dictionaries({"design": gen_ir.recipes(self.cfg(tier)),
                                      "edits": st.lists(step, min_size=1, max_size=4),
                                      "sample": st.integers(0, 50),
                                      "pre": st.sampled_from(["none", "none", "none", "clone", "uniquify",
                                                              "clone+uniquify", "flatten"])})

    def fixed_cases(self, tier):
        stress = [{"design": r, "edits": [], "sample": 0, "pre": "none"} for k, r in sorted(gen_ir.stress_recipes().items())
                  if k.startswith("deep")]
        return stress + gen_ir.example_cases(tier, quick_limit=4000, thorough_limit=9000)

    def run(self, case):
        import spydrnet as sdn

        res = Result()
        if "example" in case:
            nl = gen_ir.load_example(case)
            res.label("bundled-example")
            if nl is None or nl.top_instance is None or model.wf(nl, strict=True):
                res.label("example-not-usable")
                return res
            case = dict(case, edits=[], sample=0)
        else:
            nl = gen_ir.build(case["design"]).netlist
            if nl.top_instance is not None and nl.top_instance.reference is not None:
                nl = pre_transform(nl, case.get("pre", "none"), res)
                if nl is None:
                    return res
        M = HModel(nl)
        depth2 = Counter(id(p[-1]) for p in M.paths if len(p) >= 3)
        if any(v >= 2 for v in depth2.values()):
            res.nontrivial = True
        if len(M.paths) > 400:
            res.label("paths>400")
            return res
        fns = {n: getattr(sdn, n) for n in FUNCS}
        expect = {"get_hinstances": M.hinstances, "get_hports": M.hports, "get_hpins": M.hpins,
                  "get_hcables": M.hcables, "get_hwires": M.hwires}
        held = {}

        def compare(tag, got, want):
            """got: list of hrefs, want: list of item sequences"""
            try:
                got = list(got)
            except Exception as e:  # noqa
                res.violate("C11:%s:raises:%s" % (tag, type(e).__name__), repr(e))
                return []
            g = Counter(key(seq_of(h)) for h in got)
            w = Counter(key(s) for s in want)
            if any(v > 1 for v in g.values()):
                res.violate("C11:%s:duplicate" % tag, "%d references returned twice" % sum(
                    1 for v in g.values() if v > 1))
            gs, ws = set(g), set(w)
            if ws - gs:
                res.violate("C11:%s:missing" % tag, "%d of %d occurrences missing" % (len(ws - gs),
                                                                                      len(ws)))
            if gs - ws:
                res.violate("C11:%s:extra" % tag, "%d unexpected references" % len(gs - ws))
            return got

        # --- netlist root
        for fn in FUNCS:
            for rec in (True, False):
                got = compare("%s:netlist:%s" % (fn, "recursive" if rec else "flat"),
                              fns[fn](nl, recursive=rec), expect[fn](rec))
                if rec:
                    for h in got:
                        held[key(seq_of(h))] = h
        top = nl.top_instance
        if top is not None:
            held.setdefault(key((top,)), sdn.HRef.from_parent_and_item(None, top))
        # --- validity, names, canonicity
        again = {}
        for fn in FUNCS:
            try:
                for h in fns[fn](nl, recursive=True):
                    again[key(seq_of(h))] = h
            except Exception:  # noqa (reported above)
                pass
        for k, h in held.items():
            seq = seq_of(h)
            try:
                if h.is_valid is not True:
                    res.violate("C11:returned-reference-not-valid:%s" % kind_of(seq))
                nm = h.name
            except Exception as e:  # noqa
                res.violate("C11:is_valid-or-name-raises:%s:%s" % (kind_of(seq), type(e).__name__), repr(e))
                continue
            want = M.name_of(seq)
            if nm != want:
                res.violate("C11:name:%s" % kind_of(seq), "%r != expected %r" % (nm, want))
            h2 = sdn.HRef.from_sequence(seq)
            if h2 is not h or hash(h2) != hash(h):
                res.violate("C11:not-canonical:from_sequence:%s" % kind_of(seq))
            if k in again and again[k] is not h:
                res.violate("C11:not-canonical:second-query:%s" % kind_of(seq))
        # --- element roots
        defs = [D for L in nl.libraries for D in L.definitions]
        s = case.get("sample", 0)
        for D in defs[:6]:
            occ = M.paths_of_definition(D)
            compare("get_hinstances:definition", fns["get_hinstances"](D), occ)
            compare("get_hports:definition", fns["get_hports"](D), [p + (P,) for p in occ for P in D.ports])
            compare("get_hpins:definition", fns["get_hpins"](D),
                    [p + (P, x) for p in occ for P in D.ports for x in P.pins])
            compare("get_hcables:definition", fns["get_hcables"](D),
                    [p + (C,) for p in occ for C in D.cables])
            compare("get_hwires:definition", fns["get_hwires"](D),
                    [p + (C, w) for p in occ for C in D.cables for w in C.wires])
            for P in list(D.ports)[:2]:
                compare("get_hports:port", fns["get_hports"](P), [p + (P,) for p in occ])
                for x in list(P.pins)[:2]:
                    compare("get_hpins:pin", fns["get_hpins"](x), [p + (P, x) for p in occ])
            for C in list(D.cables)[:2]:
                compare("get_hcables:cable", fns["get_hcables"](C), [p + (C,) for p in occ])
                for w in list(C.wires)[:2]:
                    compare("get_hwires:wire", fns["get_hwires"](w), [p + (C, w) for p in occ])
            for I in list(D.children)[:3]:
                if I.reference is None:
                    continue  # the netlist of an unreferenced instance is not derivable: out of domain
                compare("get_hinstances:instance", fns["get_hinstances"](I), M.paths_of_instance(I))
        if top is not None:
            compare("get_hinstances:instance", fns["get_hinstances"](top), M.paths_of_instance(top))

        def for_defs(ds):
            occ = []
            seen = set()
            for D in ds:
                for p in M.paths_of_definition(D):
                    if key(p) not in seen:
                        seen.add(key(p))
                        occ.append(p)
            return {
                "get_hinstances": occ,
                "get_hports": [p + (P,) for p in occ for P in p[-1].reference.ports],
                "get_hpins": [p + (P, x) for p in occ for P in p[-1].reference.ports for x in P.pins],
                "get_hcables": [p + (C,) for p in occ for C in p[-1].reference.cables],
                "get_hwires": [p + (C, w) for p in occ for C in p[-1].reference.cables for w in C.wires],
            }
        # --- library roots and collections of roots (instances at several depths of one path)
        for L in list(nl.libraries)[:3]:
            want = for_defs(list(L.definitions))
            for fn in FUNCS:
                compare("%s:library" % fn, fns[fn](L), want[fn])
        if len(defs) >= 2:
            pair = [defs[s % len(defs)], defs[(s // 3 + 1) % len(defs)]]
            want = for_defs(pair)
            for fn in FUNCS:
                compare("%s:collection-of-definitions" % fn, fns[fn](list(pair)), want[fn])
        deep = [p for p in M.paths if len(p) >= 3 and p[-1].reference is not None]
        if deep:
            p = deep[s % len(deep)]
            insts = [p[-1], p[-2]]
            want = [q for q in M.paths if q[-1] is insts[0] or q[-1] is insts[1]]
            compare("get_hinstances:collection-of-instances", fns["get_hinstances"](list(insts)), want)
        # --- a collection that mixes a netlist (or hierarchical-instance) root with an element root of
        # the same scope: still one reference per occurrence
        if defs:
            Dm = defs[(s // 5) % len(defs)]
            for rec in (True, False):
                seen, want = set(), []
                for q in M.hinstances(rec) + M.paths_of_definition(Dm):
                    if key(q) not in seen:
                        seen.add(key(q))
                        want.append(q)
                compare("get_hinstances:collection-netlist+definition:%s" % ("recursive" if rec else "flat"),
                        fns["get_hinstances"]([nl, Dm], recursive=rec), want)
        # --- hierarchical references as roots
        inst_paths = [p for p in M.paths if len(p) >= 2 and p[-1].reference is not None]
        for j in range(min(3, len(inst_paths))):
            p = inst_paths[(s + 7 * j) % len(inst_paths)]
            h = sdn.HRef.from_sequence(p)
            for fn in FUNCS:
                for rec in (True, False):
                    compare("%s:href:%s" % (fn, "recursive" if rec else "flat"),
                            fns[fn](h, recursive=rec), expect[fn](rec, below=p))
        if res.violations:
            return res
        # --- edits, then is_valid / is_unique of everything held
        uni = ops.Universe()
        uni.absorb(nl)
        uni.refresh_outer()
        it = ops.Interpreter(uni, [])
        for op in case["edits"]:
            it.step(op)
        if any(t[1] == "ok" for t in it.trace):
            res.label("edited")
        alld = list(uni.pool["definition"])
        if not model.hierarchy_acyclic(alld):
            res.label("edit-made-hierarchy-cyclic(not judged)")
            return res
        M2 = HModel(nl)
        occ2 = Counter(id(p[-1]) for p in M2.paths)
        broken = 0
        for k, h in held.items():
            seq = seq_of(h)
            want_valid = M2.still_valid(seq)
            if not want_valid:
                broken += 1
            try:
                got_valid = h.is_valid
                got_unique = h.is_unique
            except Exception as e:  # noqa
                res.violate("C11:after-edit:raises:%s:%s" % (kind_of(seq), type(e).__name__), repr(e))
                continue
            if bool(got_valid) != want_valid:
                res.violate("C11:after-edit:is_valid:%s:expected-%s" % (kind_of(seq), want_valid))
            if want_valid:
                try:
                    nm = h.name
                except Exception as e:  # noqa
                    res.violate("C11:after-edit:name-raises:%s:%s" % (kind_of(seq), type(e).__name__), repr(e))
                    continue
                if nm != HModel.name_of(seq):
                    res.violate("C11:after-edit:name:%s" % kind_of(seq), "%r, expected %r" % (
                        nm, HModel.name_of(seq)))
            last = [x for x in seq if isinstance(x, sdn.Instance)][-1]
            want_unique = want_valid and occ2.get(id(last), 0) == 1
            if bool(got_unique) != want_unique:
                res.violate("C11:after-edit:is_unique:%s:expected-%s" % (kind_of(seq), want_unique),
                            "occurrences of last instance: %d" % occ2.get(id(last), 0))
        if broken:
            res.label("edit-broke-some-paths")
        return res


PROP = C11()
