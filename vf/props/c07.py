"""C07 - clones are faithful, self-contained and independent of the original"""
import os
import tempfile

from hypothesis import strategies as st

from vf import gen_ir, model, ops
from vf.core import Prop, Result

KINDS = ["netlist", "netlist", "netlist", "library", "definition", "instance", "port", "cable", "wire",
         "innerpin", "outerpin"]
FOLLOW = ["none", "edit", "edit", "uniquify", "flatten", "compose_v", "compose_edf", "data"]

EDIT_WEIGHTS = {"bundle.is_downto=": 0, "port.direction=": 0, "nl.new": 0, "el.clone": 0}


def def_canon(D, own_defs):
    """canonical structure of one definition; child references as ('in', index) when the referenced
    definition is one of own_defs (list), else ('ext', id)"""
    pos = {id(x): i for i, x in enumerate(own_defs)}
    port_pos = {}
    ports = []
    for pi, P in enumerate(D.ports):
        ports.append({"name": P.name, "w": len(P.pins), "lo": P.lower_index, "arr": bool(P.is_array),
                      "downto": P.is_downto, "dir": P.direction.name, "data": model.data_of(P)})
        for bi, p in enumerate(P.pins):
            port_pos[id(p)] = ("p", pi, bi)
    child_pos = {id(I): ci for ci, I in enumerate(D.children)}
    children = []
    for I in D.children:
        R = I.reference
        ref = None if R is None else (["in", pos[id(R)]] if id(R) in pos else ["ext", id(R)])
        children.append({"name": I.name, "ref": ref, "data": model.data_of(I)})
    cables = []
    for C in D.cables:
        ws = []
        for w in C.wires:
            ws.append([model._end(p, port_pos, child_pos) for p in w.pins])
        cables.append({"name": C.name, "w": len(C.wires), "lo": C.lower_index, "arr": bool(C.is_array),
                       "downto": C.is_downto, "data": model.data_of(C), "wires": ws})
    return {"name": D.name, "data": model.data_of(D), "ports": ports, "cables": cables,
            "children": children}


def mutable_ids(el):
    """ids of every nested mutable container in el's data"""
    out = []

    def walk(v):
        if isinstance(v, (list, dict)):
            out.append(id(v))
            for x in (v.values() if isinstance(v, dict) else v):
                walk(x)
        elif isinstance(v, tuple):
            for x in v:   # immutable itself, but it may hold mutable containers
                walk(x)
    for k in el.data:
        walk(el.data[k])
    return out


def first_class_of(nl):
    out = [nl]
    for L in nl.libraries:
        out.append(L)
        for D in L.definitions:
            out.append(D)
            out.extend(D.ports)
            out.extend(D.cables)
            out.extend(D.children)
    t = nl.top_instance
    if t is not None and hasattr(t, "reference"):
        out.append(t)
    return out


def refsets(nl):
    return {id(D): set(id(r) for r in D.references) for L in nl.libraries for D in L.definitions}


def query_fingerprint(nl):
    """answers of name lookups and hierarchical name sets; comparable between clone and original"""
    import spydrnet as sdn

    out = []
    IDK = "EDIF.identifier"

    def by_id(tag, where, parent, x, fn):
        v = x.data.get(IDK)
        if isinstance(v, str) and v and "*" not in v and "?" not in v:
            out.append((tag + "-id",) + where + (len(list(fn(parent, v, key=IDK))),))
    for li, L in enumerate(nl.libraries):
        if L.name is not None:
            out.append(("lib", li, len(list(sdn.get_libraries(nl, L.name)))))
        by_id("lib", (li,), nl, L, sdn.get_libraries)
        for di, D in enumerate(L.definitions):
            if D.name is not None:
                out.append(("def", li, di, len(list(sdn.get_definitions(L, D.name)))))
            by_id("def", (li, di), L, D, sdn.get_definitions)
            for tag, lst, fn in (("port", D.ports, sdn.get_ports), ("cable", D.cables, sdn.get_cables),
                                 ("inst", D.children, sdn.get_instances)):
                for xi, x in enumerate(lst):
                    if x.name is not None and "[" not in x.name and "*" not in x.name:
                        out.append((tag, li, di, xi, len(list(fn(D, x.name)))))
                    by_id(tag, (li, di, xi), D, x, fn)
    if nl.top_instance is not None and hasattr(nl.top_instance, "reference") \
            and nl.top_instance.reference is not None:
        for fn in (sdn.get_hinstances, sdn.get_hwires, sdn.get_hports):
            try:
                names = sorted(str(h.name) for h in fn(nl, recursive=True))
            except Exception as e:  # noqa
                names = ["raises %s" % type(e).__name__]
            out.append((fn.__name__, names))
    return out


# (is_unique is left out: it counts references from outside the netlist too, which a copy by
# definition does not have)
QUERY_METHODS = ("index", "is_leaf")


def public_view(nl):
    """every public property (and the argument-less query methods) of every element that yields a
    primitive value, in canonical order: a copy answers them like the original"""
    import enum

    out = []

    def add(tag, e):
        vals = []
        for n in sorted(dir(type(e))):
            if n.startswith("_"):
                continue
            attr = getattr(type(e), n, None)
            try:
                if isinstance(attr, property):
                    v = getattr(e, n)
                elif n in QUERY_METHODS and callable(attr):
                    v = getattr(e, n)()
                else:
                    continue
            except Exception as ex:  # noqa
                v = "raises " + type(ex).__name__
            if isinstance(v, (bool, int, str, type(None), enum.Enum)):
                vals.append((n, str(v)))
        out.append((tag, vals))

    add("netlist", nl)
    if nl.top_instance is not None:
        add("top", nl.top_instance)
    for li, L in enumerate(nl.libraries):
        add("lib%d" % li, L)
        for di, D in enumerate(L.definitions):
            t = "lib%d.def%d" % (li, di)
            add(t, D)
            for pi, P in enumerate(D.ports):
                add("%s.port%d" % (t, pi), P)
                for xi, x in enumerate(P.pins):
                    add("%s.port%d.pin%d" % (t, pi, xi), x)
            for ci, C in enumerate(D.cables):
                add("%s.cable%d" % (t, ci), C)
                for wi, w in enumerate(C.wires):
                    add("%s.cable%d.wire%d" % (t, ci, wi), w)
            for ii, I in enumerate(D.children):
                add("%s.inst%d" % (t, ii), I)
                if I.reference is not None:
                    k = 0
                    for P in I.reference.ports:
                        for x in P.pins:
                            if x in I.pins:
                                add("%s.inst%d.outer%d" % (t, ii, k), I.pins[x])
                            k += 1
    return out


def proxies_stand_for_pins(root):
    """(instance, inner pin) proxies compare equal to the registered outer pins and hash like them"""
    import spydrnet as sdn

    insts = []
    if isinstance(root, sdn.Netlist):
        insts = [I for L in root.libraries for D in L.definitions for I in D.children]
        if root.top_instance is not None:
            insts.append(root.top_instance)
    elif isinstance(root, sdn.Library):
        insts = [I for D in root.definitions for I in D.children]
    elif isinstance(root, sdn.Definition):
        insts = list(root.children)
    elif isinstance(root, sdn.Instance):
        insts = [root]
    for I in insts:
        for ip, op in list(I.pins.items()):
            proxy = sdn.OuterPin.from_instance_and_inner_pin(I, ip)
            if not (proxy == op):
                return "proxy-differs-from-registered-outer-pin"
            if hash(proxy) != hash(op):
                return "equal-outer-pins-hash-differently"
    return None


class C07(Prop):
    ID = "C07"
    RULE = ("design recipes (named and unnamed elements, nested user data on every first-class element, "
            "cross-library references, shared definitions, late edits, top instance standalone / made "
            "from a definition / also a child) built through the API; a drawn clone root of every kind "
            "(netlist, library, definition, instance, port, cable, wire, inner pin, outer pin), optional "
            "pre-steps (detached clones, removed definition, foreign netlist, top moved twice); oracles: "
            "canonical structure equal, identity sets disjoint, wf incl. closure of every link, source "
            "identity snapshot unchanged (except documented reference-set growth), nested data not "
            "shared, query answers equal; then a drawn follow-up (edit history, uniquify, flatten, "
            "compose, in-place data mutation) on the clone or the original after which the other side's "
            "identity snapshot must be unchanged. non-trivial = clone root contains >=1 instance with a "
            "connected pin (netlist clones: and >=1 definition instanced >=2 times); distinct = distinct "
            "case JSON")
    ASSUMPTIONS = ["element clones are judged against docs/source/reference/functions/clone.rst",
                   "follow-up failures (e.g. compose refusing a netlist) are not judged here; only the "
                   "untouched side is compared"]
    N = {"quick": 2400, "thorough": 25000}
    CASE_TIMEOUT_S = 20

    def cfg(self, tier):
        big = tier == "thorough"
        return gen_ir.Cfg(unnamed=True, max_defs=8 if big else 6, max_children=5 if big else 4,
                          max_width=3, share=True, late=True, top="maybe", data_all=True,
                          top_modes=["standalone", "definition", "child"], noref_children=True)

    def strategy(self, tier):
        step = ops.op_strategy(EDIT_WEIGHTS)
        from vf import gen_eblif, gen_verilog
        from vf.props.c05 import NAMES

        ecfg = gen_ir.Cfg(unnamed=False, alphabet=NAMES, max_defs=5, max_children=4, max_width=3,
                          share=True, top="always", lib_monotone=True, reorder=False,
                          top_modes=["standalone"], data_values="edif")
        source = st.one_of(
            st.just({"kind": "recipe"}), st.just({"kind": "recipe"}), st.just({"kind": "recipe"}),
            st.fixed_dictionaries({"kind": st.just("edif"), "design": gen_ir.recipes(ecfg),
                                   "stream": st.lists(st.integers(0, 63), min_size=8, max_size=24)}),
            st.fixed_dictionaries({"kind": st.just("verilog"), "design": gen_verilog.designs(max_mods=3)}),
            st.fixed_dictionaries({"kind": st.just("eblif"), "design": gen_eblif.designs(max_stmts=4)}))
        return st.fixed_dictionaries({
            "design": gen_ir.recipes(self.cfg(tier)),
            "source": source,
            "pre": st.one_of(st.just([]), st.lists(st.fixed_dictionaries({
                "k": st.sampled_from(["clone_def", "remove_def", "foreign", "clone_inst", "retop"]),
                "i": st.integers(0, 30)}), min_size=1, max_size=3)),
            "root": st.fixed_dictionaries({"kind": st.sampled_from(KINDS), "i": st.integers(0, 30),
                                           "j": st.integers(0, 30), "k": st.integers(0, 30)}),
            "follow": st.fixed_dictionaries({"what": st.sampled_from(FOLLOW),
                                             "side": st.sampled_from(["clone", "orig"]),
                                             "ops": st.lists(step, min_size=3, max_size=15)}),
        })

    # -------------------------------------------------------------------------------------------
    def run(self, case):
        import spydrnet.uniquify as U
        import spydrnet.flatten as F

        res = Result()
        U.MOD_NAME_UID = 0
        F.mod_name_uid = 0
        F.unique_number = 0
        src = case.get("source") or {"kind": "recipe"}
        B = None
        if src["kind"] == "recipe":
            B = gen_ir.build(case["design"])
            nl = B.netlist
            pre = model.wf(nl, strict=True)
            if pre:
                raise RuntimeError("generator produced ill-formed netlist: %r" % pre[:3])
        else:
            nl = self.read_source(res, src)
            if nl is None:
                return res
        res.label("source-" + src["kind"])
        self.keep = self.outsiders(nl, case.get("pre") or [], res)
        if res.violations:
            return res
        kind = case["root"]["kind"]
        res.label("root-" + kind)
        if kind == "netlist":
            self.netlist_clone(res, nl, case)
        else:
            self.element_clone(res, nl, B, case)
        return res

    @staticmethod
    def read_source(res, src):
        """a netlist produced by one of the three readers from an independent writer's text"""
        import spydrnet as sdn
        from vf import gen_eblif, gen_edif, gen_verilog
        from vf.props.c05 import parse_text as parse_edif
        from vf.props.c06 import parse_text

        try:
            if src["kind"] == "edif":
                Bx = gen_ir.build(src["design"])
                text, _, _ = gen_edif.render(model.canon(Bx.netlist), src["stream"])
                nl = parse_edif(text)
            elif src["kind"] == "verilog":
                d = dict(src["design"])
                if not gen_verilog.in_domain(d):
                    res.label("out-of-domain")
                    return None
                nl = parse_text(gen_verilog.text_of(d)[0])
            else:
                d = dict(src["design"])
                if not gen_eblif.in_domain(d):
                    res.label("out-of-domain")
                    return None
                text, exp, _ = gen_eblif.render(d)
                if exp.get("dup_names"):
                    res.label("out-of-domain")
                    return None
                nl = parse_text(text, ".eblif")
        except Exception:  # noqa the readers are judged by C05/C06/C18
            sdn.namespace_manager.default = "DEFAULT"
            res.label("source-rejected-by-reader")
            return None
        if model.wf(nl, strict=True):
            res.label("reader-output-ill-formed(decided by C05/C06/C18)")
            return None
        return nl

    @staticmethod
    def outsiders(nl, pre, res):
        """elements outside the netlist that reference definitions inside it (all reachable through
        the public API: detached clones, removed definitions, a second netlist)"""
        import spydrnet as sdn

        keep = []
        defs = [D for L in nl.libraries for D in L.definitions]
        for p in pre:
            if not defs:
                break
            D = defs[p["i"] % len(defs)]
            k = p["k"]
            if k == "clone_def":
                try:
                    keep.append(D.clone())
                except Exception as e:  # noqa
                    res.violate("C07:definition:clone-raises:%s" % type(e).__name__, repr(e))
                    break
                res.label("pre-detached-definition-clone")
            elif k == "clone_inst":
                if D.children:
                    try:
                        keep.append(D.children[p["i"] % len(D.children)].clone())
                    except Exception as e:  # noqa
                        res.violate("C07:instance:clone-raises:%s" % type(e).__name__, repr(e))
                        break
                    res.label("pre-detached-instance-clone")
            elif k == "remove_def":
                top = nl.top_instance
                if len(D.references) == 0 and len(D.children) and (top is None or (
                        top.reference is not D and top.parent is not D)):
                    D.library.remove_definition(D)
                    keep.append(D)
                    defs = [x for x in defs if x is not D]
                    res.label("pre-removed-definition")
            elif k == "retop":
                # the top moves twice: by definition (a fresh top instance is made), then to a hand-made
                # instance; the former top stays behind as a floating instance of its definition
                try:
                    nl.top_instance = D
                    former = nl.top_instance
                    second = sdn.Instance(name="second_top")
                    second.reference = defs[(p["i"] // 3) % len(defs)]
                    nl.set_top_instance(second)
                except Exception as e:  # noqa
                    res.violate("C07:retop-raises:%s" % type(e).__name__, repr(e))
                    break
                keep.append(former)
                res.label("pre-top-moved-twice")
            elif k == "foreign":
                other = sdn.Netlist(name="other")
                host = other.create_library(name="work").create_definition(name="host")
                host.create_child(name="u_foreign", reference=D)
                keep.append(other)
                res.label("pre-foreign-netlist-instance")
        return keep

    # -------------------------------------------------------------------------------------------
    def netlist_clone(self, res, nl, case):
        before = model.ident(nl)
        cb = model.canon(nl)
        try:
            c = nl.clone()
        except Exception as e:  # noqa
            res.violate("C07:netlist:clone-raises:%s" % type(e).__name__, repr(e))
            return
        shared = any(len(D.references) >= 2 for L in nl.libraries for D in L.definitions)
        connected = any(op.wire is not None for L in nl.libraries for D in L.definitions
                        for I in D.children for op in I.pins.values())
        res.nontrivial = shared and connected
        if model.ident(nl) != before:
            res.violate("C07:netlist:source-modified", "; ".join(model.diff(before, model.ident(nl))))
        cc = model.canon(c)
        if cc != cb:
            d = model.diff(cb, cc)
            where = "top" if d and d[0].startswith(".top") else "structure"
            res.violate("C07:netlist:not-faithful:%s" % where, "; ".join(d))
        common = model.reachable_ids(nl) & model.reachable_ids(c)
        if common:
            res.violate("C07:netlist:shares-elements", "%d shared objects" % len(common))
        for code, detail in model.wf(c, strict=True):
            res.violate("C07:netlist:" + code, detail)
        a = {id(e): mutable_ids(e) for e in first_class_of(nl)}
        allm = {m for v in a.values() for m in v}
        for e in first_class_of(c):
            if any(m in allm for m in mutable_ids(e)):
                res.violate("C07:netlist:shares-nested-data:%s" % type(e).__name__, repr(e.name))
        if res.violations:
            return
        try:
            qa, qb = query_fingerprint(nl), query_fingerprint(c)
        except Exception as e:  # noqa
            res.violate("C07:netlist:query-raises:%s" % type(e).__name__, repr(e))
            return
        if qa != qb:
            k = next((i for i, (x, y) in enumerate(zip(qa, qb)) if x != y), None)
            res.violate("C07:netlist:query-answers-differ:%s" % (qa[k][0] if k is not None else "len"),
                        "%r vs %r" % (qa[k] if k is not None else len(qa),
                                      qb[k] if k is not None else len(qb)))
            return
        va, vb = public_view(nl), public_view(c)
        if va != vb:
            k = next((i for i, (x, y) in enumerate(zip(va, vb)) if x != y), None)
            what = "length"
            if k is not None:
                da = dict(va[k][1]); db = dict(vb[k][1])
                what = next((n for n in sorted(set(da) | set(db)) if da.get(n) != db.get(n)), "?")
            res.violate("C07:netlist:public-view-differs:%s" % what, "%r vs %r" % (
                va[k] if k is not None else len(va), vb[k] if k is not None else len(vb)))
            return
        bad = proxies_stand_for_pins(c)
        if bad:
            res.violate("C07:netlist:%s" % bad, "in the clone")
            return
        self.follow(res, nl, c, case)

    def follow(self, res, nl, c, case):
        import spydrnet as sdn
        import spydrnet.uniquify as U
        import spydrnet.flatten as F

        fo = case["follow"]
        what, side = fo["what"], fo["side"]
        res.label("follow-" + what)
        victim, other = (c, nl) if side == "clone" else (nl, c)
        snap = model.ident(other)
        try:
            if what == "edit":
                uni = ops.Universe()
                uni.absorb(victim)
                uni.refresh_outer()
                it = ops.Interpreter(uni, [])
                for op in fo["ops"]:
                    it.step(op)
            elif what == "uniquify":
                if victim.top_instance is not None and victim.top_instance.reference is not None:
                    U.uniquify(victim)
            elif what == "flatten":
                if victim.top_instance is not None and victim.top_instance.reference is not None:
                    U.uniquify(victim)
                    F.flatten(victim)
            elif what in ("compose_v", "compose_edf"):
                if what == "compose_edf" and not model.library_deps_acyclic(victim):
                    what = "none"  # outside the EDIF writer's domain (its sort does not terminate)
                with tempfile.TemporaryDirectory() as td:
                    if what != "none":
                        sdn.compose(victim, os.path.join(td, "x.v" if what == "compose_v" else "x.edf"))
            elif what == "data":
                for e in first_class_of(victim):
                    for k in e.data:
                        v = e.data[k]
                        if isinstance(v, list):
                            v.append("mutated")
                        elif isinstance(v, dict):
                            v["mutated"] = 1
        except Exception:  # noqa  the follow-up's own success is not judged here
            res.label("follow-up-raised")
        finally:
            sdn.namespace_manager.default = "DEFAULT"
        now = model.ident(other)
        if now != snap:
            res.violate("C07:netlist:%s-on-%s-shows-in-other" % (what, side),
                        "; ".join(model.diff(snap, now)))

    # -------------------------------------------------------------------------------------------
    def element_clone(self, res, nl, B, case):
        r = case["root"]
        kind = r["kind"]
        defs = [D for L in nl.libraries for D in L.definitions]
        if not defs:
            return
        D = defs[r["i"] % len(defs)]
        # prefer definitions with content
        rich = [x for x in defs if len(x.children) and len(x.cables)]
        if rich and kind in ("definition", "instance", "cable", "wire", "outerpin"):
            D = rich[r["i"] % len(rich)]
        before = model.ident(nl, with_refs=False)
        refs0 = refsets(nl)
        if kind == "library":
            L = nl.libraries[r["i"] % len(nl.libraries)]
            src = L
        elif kind == "definition":
            src = D
        elif kind == "instance":
            if not D.children:
                return
            src = D.children[r["j"] % len(D.children)]
        elif kind == "port":
            withp = [x for x in defs if len(x.ports)]
            if not withp:
                return
            D = withp[r["i"] % len(withp)]
            src = D.ports[r["j"] % len(D.ports)]
        elif kind == "cable":
            if not D.cables:
                return
            src = D.cables[r["j"] % len(D.cables)]
        elif kind == "wire":
            ws = [w for C in D.cables for w in C.wires]
            if not ws:
                return
            src = ws[r["j"] % len(ws)]
        elif kind == "innerpin":
            ps = [p for x in defs for P in x.ports for p in P.pins]
            if not ps:
                return
            src = ps[r["j"] % len(ps)]
        else:
            ops_ = [op for I in D.children for op in I.pins.values()]
            if not ops_:
                return
            src = ops_[r["j"] % len(ops_)]
        try:
            c = src.clone()
        except Exception as e:  # noqa
            res.violate("C07:%s:clone-raises:%s" % (kind, type(e).__name__), repr(e))
            return
        V = lambda what, detail="": res.violate("C07:%s:%s" % (kind, what), detail)  # noqa
        after = model.ident(nl, with_refs=False)
        if after != before:
            V("source-modified", "; ".join(model.diff(before, after)))
        refs1 = refsets(nl)
        expected_new = {}  # id(def) -> set(id(instance)) the documented growth

        def expect(inst):
            if inst.reference is not None:
                expected_new.setdefault(id(inst.reference), set()).add(id(inst))

        if kind == "library":
            if c.netlist is not None:
                V("not-orphaned")
            own0, own1 = list(src.definitions), list(c.definitions)
            if len(own0) != len(own1):
                V("not-faithful", "definition count")
            else:
                for d0, d1 in zip(own0, own1):
                    a, b = def_canon(d0, own0), def_canon(d1, own1)
                    if a != b:
                        V("not-faithful", "; ".join(model.diff(a, b)))
                        break
                    self.internal_links(V, d1)
                    if d1.library is not c:
                        V("definition-parent")
                want = {id(d): set() for d in own1}
                for d1 in own1:
                    for I in d1.children:
                        if I.reference is not None and id(I.reference) in want:
                            want[id(I.reference)].add(id(I))
                        else:
                            expect(I)
                for d1 in own1:
                    if set(id(x) for x in d1.references) != want[id(d1)]:
                        V("cloned-definition-reference-set-wrong", repr(d1.name))
            res.nontrivial = any(op.wire is not None for d in own0 for I in d.children
                                 for op in I.pins.values())
            self.data_independent(V, [src] + own0 + [x for d in own0 for x in
                                                    list(d.ports) + list(d.cables) + list(d.children)],
                                  [c] + own1 + [x for d in own1 for x in
                                                list(d.ports) + list(d.cables) + list(d.children)])
        elif kind == "definition":
            if c.library is not None:
                V("not-orphaned")
            a, b = def_canon(src, []), def_canon(c, [])
            if a != b:
                V("not-faithful", "; ".join(model.diff(a, b)))
            if len(c.references) != 0:
                V("clone-has-references")
            self.internal_links(V, c)
            for I in c.children:
                expect(I)
                if I.reference is not None and I not in I.reference.references:
                    V("cloned-child-not-registered-with-its-reference")
            res.nontrivial = any(op.wire is not None for I in src.children for op in I.pins.values())
            self.data_independent(V, [src] + list(src.ports) + list(src.cables) + list(src.children),
                                  [c] + list(c.ports) + list(c.cables) + list(c.children))
        elif kind == "instance":
            if c.parent is not None:
                V("not-orphaned")
            if c.reference is not src.reference:
                V("reference-changed")
            elif c.reference is not None:
                expect(c)
                if c not in c.reference.references:
                    V("clone-not-registered-with-its-reference")
                inner = [p for P in c.reference.ports for p in P.pins]
                if [id(k) for k in c.pins.keys()] != [id(k) for k in src.pins.keys()] or \
                        sorted(id(x) for x in c.pins.keys()) != sorted(id(x) for x in inner):
                    V("outer-pins-do-not-keep-their-inner-pins")
                for k, v in c.pins.items():
                    if v.wire is not None:
                        V("outer-pin-still-connected")
                    if v.instance is not c or v.inner_pin is not k:
                        V("outer-pin-back-links")
                    if any(v is w for w in src.pins.values()):
                        V("shares-outer-pins")
            if model.data_of(c) != model.data_of(src) or c.name != src.name:
                V("not-faithful", "data/name")
            res.nontrivial = any(op.wire is not None for op in src.pins.values())
            self.data_independent(V, [src], [c])
        elif kind in ("port", "cable"):
            if c.definition is not None:
                V("not-orphaned")
            n0 = len(src.pins) if kind == "port" else len(src.wires)
            n1 = len(c.pins) if kind == "port" else len(c.wires)
            attrs = lambda x: (x.name, model.data_of(x), x.lower_index, bool(x.is_array), x.is_downto,  # noqa
                               x.direction if kind == "port" else None)
            if n0 != n1 or attrs(src) != attrs(c):
                V("not-faithful", "%r vs %r" % ((n0, attrs(src)), (n1, attrs(c))))
            if kind == "port":
                for p in c.pins:
                    if p.wire is not None:
                        V("pin-still-connected")
                    if p.port is not c:
                        V("pin-parent")
                    if any(p is q for q in src.pins):
                        V("shares-pins")
                res.nontrivial = any(p.wire is not None for p in src.pins)
            else:
                for w in c.wires:
                    if len(w.pins):
                        V("wire-still-lists-pins")
                    if w.cable is not c:
                        V("wire-parent")
                    if any(w is q for q in src.wires):
                        V("shares-wires")
                res.nontrivial = any(len(w.pins) for w in src.wires)
            self.data_independent(V, [src], [c])
        elif kind == "wire":
            if c.cable is not None or len(c.pins):
                V("not-detached")
            res.nontrivial = len(src.pins) > 0
        elif kind == "innerpin":
            if c.port is not None or c.wire is not None:
                V("not-detached")
            res.nontrivial = src.wire is not None
        else:
            if c.instance is not None or c.inner_pin is not None or c.wire is not None:
                V("not-detached")
            res.nontrivial = src.wire is not None
        # documented bookkeeping on shared definitions: reference sets grew by exactly the clones
        for did, s0 in refs0.items():
            s1 = refs1.get(did, set())
            if s1 != s0 | expected_new.get(did, set()):
                V("reference-set-bookkeeping", "gained %d, lost %d, expected to gain %d" % (
                    len(s1 - s0), len(s0 - s1), len(expected_new.get(did, set()))))
                break

    @staticmethod
    def internal_links(V, d):
        """no wire->pin or pin->wire link leaves the cloned definition"""
        wires = {id(w) for C in d.cables for w in C.wires}
        pins = {id(p) for P in d.ports for p in P.pins} | \
               {id(op) for I in d.children for op in I.pins.values()}
        for C in d.cables:
            if C.definition is not d:
                V("cable-parent")
            for w in C.wires:
                for p in w.pins:
                    if id(p) not in pins:
                        V("wire-lists-pin-outside-clone")
                    elif p.wire is not w:
                        V("pin-wire-backlink")
        for P in d.ports:
            if P.definition is not d:
                V("port-parent")
            for p in P.pins:
                if p.wire is not None and id(p.wire) not in wires:
                    V("pin-wire-outside-clone")
        for I in d.children:
            if I.parent is not d:
                V("child-parent")
            for k, op in I.pins.items():
                if op.wire is not None and id(op.wire) not in wires:
                    V("outer-pin-wire-outside-clone")
                if op.instance is not I or op.inner_pin is not k:
                    V("outer-pin-back-links")
                if I.reference is not None and (k.port is None or k.port.definition is not I.reference):
                    V("outer-pin-inner-pin-not-of-reference")

    @staticmethod
    def data_independent(V, a, b):
        allm = {m for e in a for m in mutable_ids(e)}
        for e in b:
            if any(m in allm for m in mutable_ids(e)):
                V("shares-nested-data:%s" % type(e).__name__, repr(e.name))
                return


PROP = C07()
