"""C13 - query filters mean what they say: exact, wildcard, regex and case options agree"""
import re

from hypothesis import strategies as st

from vf import gen_ir
from vf.core import Prop, Result
from vf.hmodel import seq_of

NAMES = ["a", "A", "ab", "aB", "Ab", "b", "B", "abc", "a_1", "ba"]
IDENTS = ["a", "A", "ab", "aB", "b", "B_1", "abc", "ba"]
UVALS = ["v", "V", "vw", "w"]

PLAIN = ["get_netlists", "get_libraries", "get_definitions", "get_instances", "get_ports", "get_pins",
         "get_cables", "get_wires"]
HIER = ["get_hinstances", "get_hports", "get_hpins", "get_hcables", "get_hwires"]
NO_PATTERN = {"get_pins", "get_wires"}
SEL2 = {"get_libraries", "get_definitions", "get_instances", "get_pins"}
SEL4 = {"get_cables", "get_wires", "get_hcables", "get_hwires"}
RECURSIVE = {"get_libraries", "get_definitions", "get_instances", "get_cables", "get_wires"} | set(HIER)
HAS_KEY = set(PLAIN) - NO_PATTERN

ROOT_KINDS = ["netlist", "library", "definition", "instance", "port", "cable", "innerpin", "outerpin",
              "wire", "href"]
PAT_KINDS = ["exact", "exact", "caseswap", "prefix", "qmark", "star", "nomatch", "suffix", "mid"]


def glob_rx(p):
    return "".join(".*" if c == "*" else "." if c == "?" else re.escape(c) for c in p)


def matches(value, pattern, is_case, is_re):
    if value is None:
        value = ""
    flags = 0 if is_case else re.IGNORECASE
    try:
        rx = pattern if is_re else glob_rx(pattern)
        return re.fullmatch(rx, value, flags) is not None
    except re.error:
        return False


def is_absolute(pattern, is_case, is_re):
    return is_case and not is_re and "*" not in pattern and "?" not in pattern


query = st.fixed_dictionaries({
    "fn": st.sampled_from(PLAIN + HIER),
    "root": st.fixed_dictionaries({"kind": st.sampled_from(ROOT_KINDS), "i": st.integers(0, 40),
                                   "j": st.integers(0, 40)}),
    "root2": st.one_of(st.none(), st.fixed_dictionaries(
        {"kind": st.sampled_from(ROOT_KINDS), "i": st.integers(0, 40), "j": st.integers(0, 40)})),
    "sel": st.integers(0, 3),
    "recursive": st.booleans(),
    "key": st.sampled_from([".NAME", ".NAME", "EDIF.identifier", "K"]),
    "pats": st.lists(st.fixed_dictionaries({"kind": st.sampled_from(PAT_KINDS), "v": st.integers(0, 40)}),
                     min_size=1, max_size=3),
    "is_case": st.booleans(),
    "is_re": st.booleans(),
    "filter": st.integers(0, 2),
})


class C13(Prop):
    ID = "C13"
    RULE = ("design recipes with names from a case-colliding alphabet (a,A,ab,aB,Ab,...), identifiers and "
            "user-key values set on a drawn subset of elements, built under DEFAULT or EDIF; per design 6 "
            "drawn queries: function in the 13 getters, root of any accepted kind (or a 2-element "
            "collection), valid selection/recursive, key in {.NAME, EDIF.identifier, user key}, 1-3 "
            "patterns derived from the values present (exact, case-swapped, prefix*, ?-substitution, *, "
            "escaped regex, .*mid.*, non-match, duplicates), is_case, is_re, filter callback; oracle = the "
            "function's own unfiltered answer restricted by an independent matcher (re.escape-based "
            "glob, fullmatch, case folding), no duplicates, pattern-order independence, filter "
            "composition, fast lookup registered vs deregistered. non-trivial = unfiltered answer "
            "non-empty and expected a non-empty proper subset, or >=2 patterns with overlapping "
            "matches; distinct = distinct (case JSON)")
    ASSUMPTIONS = ["wildcard patterns contain no '[' or ']' and no pattern is empty (the property names * "
                   "and ? only)",
                   "an exact (absolute) pattern on EDIF.identifier under the EDIF policy may also return "
                   "case-variant matches (documented fast-lookup behaviour): result must lie between the "
                   "case-sensitive and the case-insensitive expectation",
                   "hierarchical getters: value = name relative to the query root, defined for netlist "
                   "and hierarchical-instance roots; element roots are only probed with a non-matching "
                   "pattern",
                   "under a policy that does not make a key unique, an exact pattern may return a "
                   "non-empty subset of equal-valued elements (single-result lookup API)"]
    N = {"quick": 4800, "thorough": 64000}
    CASE_TIMEOUT_S = 60

    def cfg(self, tier):
        big = tier == "thorough"
        return gen_ir.Cfg(unnamed=True, alphabet=NAMES, max_defs=6 if big else 5,
                          max_children=4 if big else 3, max_width=2, share=True, top="always",
                          top_modes=["standalone", "definition"], data=False, noref_children=True)

    def strategy(self, tier):
        return st.fixed_dictionaries({
            "policy": st.sampled_from(["DEFAULT", "EDIF"]),
            "design": gen_ir.recipes(self.cfg(tier)),
            "extra": st.lists(st.tuples(st.integers(0, 60), st.sampled_from(["EDIF.identifier", "K"]),
                                        st.integers(0, 7)).map(list), max_size=12),
            "queries": st.lists(query, min_size=6, max_size=6),
            "via_clone": st.integers(0, 4).map(lambda v: v == 0),
            "edits": st.one_of(st.just([]), st.lists(st.fixed_dictionaries({
                "k": st.sampled_from(["del_name", "name_none", "rename", "del_id", "pop_id", "pop_name",
                                      "set_id", "bulk_remove", "bulk_remove"]),
                "i": st.integers(0, 60), "v": st.integers(0, 20)}), max_size=4)),
        })

    # -------------------------------------------------------------------------------------------
    def run(self, case):
        import spydrnet as sdn

        res = Result()
        sdn.namespace_manager.default = case.get("policy", "DEFAULT")
        B = gen_ir.build(case["design"])
        nl = B.netlist
        if case.get("via_clone"):
            # the queries run on a clone (its name index is built wholesale, not edit by edit)
            try:
                nl = nl.clone()
                res.label("queries-on-a-clone")
            except Exception:  # noqa (C07's business)
                nl = B.netlist
        els = [nl] + [x for L in nl.libraries for x in [L] + [y for D in L.definitions for y in
                      [D] + list(D.ports) + list(D.cables) + list(D.children)]]
        for i, key, v in case.get("extra", []):
            E = els[i % len(els)]
            val = IDENTS[v % len(IDENTS)] if key == "EDIF.identifier" else UVALS[v % len(UVALS)]
            try:
                E[key] = val
            except ValueError:
                pass
        # naming edits through the public API before the queries (un-naming, renaming, dropping or
        # setting identifiers): exact patterns take the accelerated lookup, the others scan
        self.freed = {".NAME": set(), "EDIF.identifier": set()}

        def container_of(E):
            for attr, f in (("netlist", sdn.get_libraries), ("library", sdn.get_definitions),
                            ("definition", sdn.get_ports if isinstance(E, sdn.Port) else sdn.get_cables),
                            ("parent", sdn.get_instances)):
                v = getattr(E, attr, None)
                if v is not None and not callable(v) and not isinstance(E, sdn.Netlist):
                    return v, f
            return None, None
        probes = []   # (edit kind, container before the edit, getter, element)
        for e in case.get("edits") or []:
            E = els[e["i"] % len(els)]
            for kk in self.freed:
                if isinstance(E.data.get(kk), str) and E.data[kk]:
                    self.freed[kk].add(E.data[kk])   # a value an edit may free: still asked for below
            par0, fn0 = container_of(E)
            probes.append((e["k"], par0, fn0, E))
            try:
                k = e["k"]
                if k == "bulk_remove":
                    # the element and its next sibling leave their container in one bulk call
                    if isinstance(E, sdn.Instance) and par0 is not None:
                        sib = list(par0.children)
                        par0.remove_children_from([E, sib[(sib.index(E) + 1) % len(sib)]])
                    elif isinstance(E, sdn.Cable) and par0 is not None:
                        sib = list(par0.cables)
                        par0.remove_cables_from([E, sib[(sib.index(E) + 1) % len(sib)]])
                    elif isinstance(E, sdn.Port) and par0 is not None:
                        sib = list(par0.ports)
                        par0.remove_ports_from([E, sib[(sib.index(E) + 1) % len(sib)]])
                    elif isinstance(E, sdn.Definition) and par0 is not None and not E.references:
                        par0.remove_definitions_from([E])
                    else:
                        raise ValueError("not applicable")
                    for x in list(els):
                        pass
                elif k == "del_name":
                    del E.name
                elif k == "name_none":
                    E.name = None
                elif k == "rename":
                    E.name = NAMES[e["v"] % len(NAMES)]
                elif k == "del_id":
                    del E["EDIF.identifier"]
                elif k == "pop_id":
                    E.pop("EDIF.identifier")
                elif k == "pop_name":
                    E.pop(".NAME")
                else:
                    E["EDIF.identifier"] = IDENTS[e["v"] % len(IDENTS)]
                res.label("edited-before-queries")
            except Exception:  # noqa (refusals are C10/C14's business)
                pass
        self.nl = nl
        self.policy = case.get("policy", "DEFAULT")
        # every value an edit touched is asked for by exact pattern at the edited element's container
        for ek, par, fn, E in probes:
            e = {"k": ek}
            if par is None:
                continue
            for key in (".NAME", "EDIF.identifier"):
                for v in sorted(self.freed[key] | ({E.data[key]} if isinstance(E.data.get(key), str)
                                                   and E.data[key] else set())):
                    if "*" in v or "?" in v:
                        continue
                    try:
                        U = list(fn(par, key=key))   # the unfiltered answer under the same key
                        R = list(fn(par, v, key=key))
                    except Exception as ex:  # noqa
                        res.violate("C13:%s:raises:%s" % (fn.__name__, type(ex).__name__), repr(ex))
                        return res
                    lo = {id(x) for x in U if x.data.get(key) == v}
                    hi = set(lo)
                    if key == "EDIF.identifier":
                        hi |= {id(x) for x in U if isinstance(x.data.get(key), str)
                               and x.data[key].lower() == v.lower() and x.data.get(".NS") == "EDIF"}
                    Rs = {id(x) for x in R}
                    if len(Rs) != len(R):
                        res.violate("C13:%s:exact:case:duplicates" % fn.__name__, repr(v))
                        return res
                    if not (Rs <= hi and (Rs == lo or len(hi) > len(lo) or len(lo) > 1)):
                        res.violate("C13:%s:exact:case:%s" % (fn.__name__, "extra" if Rs - hi else "missing"),
                                    "after edit %s: container %s, pattern %r key %r: expected %d, got %d" % (
                                        e["k"], type(par).__name__, v, key, len(lo), len(Rs)))
                        return res
        for q in case["queries"]:
            self.one_query(res, nl, q)
            if any(sig != "C13:hierarchical-getter-ignores-patterns-for-element-roots"
                   for sig, _ in res.violations):
                break
        res.label("policy-" + self.policy)
        return res

    def resolve_root(self, nl, r):
        import spydrnet as sdn

        defs = [D for L in nl.libraries for D in L.definitions]
        k = r["kind"]
        D = defs[r["i"] % len(defs)] if defs else None
        if k == "netlist":
            return nl
        if k == "library":
            return nl.libraries[r["i"] % len(nl.libraries)]
        if D is None:
            return nl
        if k == "definition":
            return D
        if k == "instance":
            cs = [I for x in defs for I in x.children]
            return cs[r["j"] % len(cs)] if cs else nl.top_instance
        if k == "port":
            ps = [P for x in defs for P in x.ports]
            return ps[r["j"] % len(ps)] if ps else D
        if k == "cable":
            cs = [C for x in defs for C in x.cables]
            return cs[r["j"] % len(cs)] if cs else D
        if k == "innerpin":
            ps = [p for x in defs for P in x.ports for p in P.pins]
            return ps[r["j"] % len(ps)] if ps else D
        if k == "outerpin":
            ps = [op for x in defs for I in x.children for op in I.pins.values()]
            return ps[r["j"] % len(ps)] if ps else D
        if k == "wire":
            ws = [w for x in defs for C in x.cables for w in C.wires]
            return ws[r["j"] % len(ws)] if ws else D
        # href of a hierarchical instance (or the top)
        top = nl.top_instance
        path = [top]
        n = r["i"] % 3
        cur = top
        while n and cur.reference is not None and len(cur.reference.children):
            cur = cur.reference.children[r["j"] % len(cur.reference.children)]
            path.append(cur)
            n -= 1
        return sdn.HRef.from_sequence(path)

    def one_query(self, res, nl, q):
        import spydrnet as sdn
        from spydrnet.global_state import global_service

        fn_name = q["fn"]
        fn = getattr(sdn, fn_name)
        hier = fn_name in HIER
        rq = q["root"]
        if hier and rq["kind"] not in ("netlist", "href") and rq["j"] % 2 == 0:
            # patterns of the hierarchical getters are defined for netlist / instance-HRef roots:
            # send half of the other draws there
            rq = dict(rq, kind="netlist" if rq["i"] % 2 else "href")
        root = self.resolve_root(nl, rq)
        roots = root
        rk = rq["kind"]
        if q.get("root2") and not (hier and q["root2"]["i"] % 3):
            roots = [root, self.resolve_root(nl, q["root2"])]
            rk = "collection"
        if hier and any(isinstance(r, sdn.Instance) and r.reference is None
                        for r in (roots if isinstance(roots, list) else [roots])):
            # the hierarchical getters derive the netlist from an instance's reference
            # (HRef.get_all_hrefs_of_instances documents the assumption): not a root they accept
            res.label("out-of-domain:reference-less-instance-root-for-hierarchical-getter")
            return
        kw = {}
        if fn_name in SEL2:
            kw["selection"] = [sdn.INSIDE, sdn.OUTSIDE][q["sel"] % 2]
        elif fn_name in SEL4:
            kw["selection"] = [sdn.INSIDE, sdn.OUTSIDE, sdn.BOTH, sdn.ALL][q["sel"] % 4]
        if fn_name in RECURSIVE:
            kw["recursive"] = q["recursive"]
        key = q["key"] if fn_name in HAS_KEY else None
        if key is not None:
            kw["key"] = key
        tag = fn_name

        def call(*a, **extra):
            k2 = dict(kw)
            k2.update(extra)
            r = roots
            if isinstance(r, list):
                r = list(r)
            return list(fn(r, *a, **k2))

        def ident(x):
            return tuple(id(y) for y in seq_of(x)) if hier else id(x)

        try:
            U = call()
        except Exception as e:  # noqa
            res.violate("C13:%s:unfiltered-raises:%s" % (tag, type(e).__name__), repr(e))
            return
        if len({ident(x) for x in U}) != len(U):
            res.violate("C13:%s:unfiltered-duplicates" % tag, "root %s: %d results, %d distinct" % (
                rk, len(U), len({ident(x) for x in U})))
            return
        # ---- metamorphic relations on the unfiltered answer itself
        if isinstance(roots, list):
            try:
                parts = set()
                for r1 in roots:
                    k2 = dict(kw)
                    parts |= {ident(x) for x in fn(r1, **k2)}
            except Exception as e:  # noqa
                res.violate("C13:%s:unfiltered-raises:%s" % (tag, type(e).__name__), repr(e))
                return
            if parts != {ident(x) for x in U}:
                res.violate("C13:%s:collection-is-not-union-of-members" % tag,
                            "collection gives %d, members give %d" % (len(U), len(parts)))
                return
        if "recursive" in kw and kw["recursive"]:
            try:
                flat = {ident(x) for x in call(recursive=False)}
            except Exception as e:  # noqa
                res.violate("C13:%s:unfiltered-raises:%s" % (tag, type(e).__name__), repr(e))
                return
            if not flat <= {ident(x) for x in U}:
                res.violate("C13:%s:recursive-loses-flat-results" % tag, "root %s" % rk)
                return
        if fn_name in NO_PATTERN:
            if q["filter"]:
                pred = (lambda x: id(x) % 3 == 0)
                try:
                    F = call(filter=pred)
                except Exception as e:  # noqa
                    res.violate("C13:%s:filter-raises:%s" % (tag, type(e).__name__), repr(e))
                    return
                if sorted(ident(x) for x in F) != sorted(ident(x) for x in U if pred(x)):
                    res.violate("C13:%s:filter-callback" % tag)
            return
        # ---- value function
        if hier:
            if rk in ("netlist", "href"):
                base = 1 if rk == "netlist" else len(seq_of(root))

                def value(h):
                    full = seq_of(h)
                    items = list(full[base:])
                    idx = ""
                    if items and isinstance(items[-1], (sdn.Wire, sdn.InnerPin)):
                        last, bundle = items[-1], items[-2]
                        if bundle.is_array:
                            seqs = bundle.wires if isinstance(last, sdn.Wire) else bundle.pins
                            idx = "[%d]" % (bundle.lower_index + list(seqs).index(last))
                        items = items[:-1]
                    return "/".join((x.name or "") for x in items) + idx
                if kw.get("selection") not in (None, sdn.INSIDE):
                    # names are only used for the INSIDE name map; other selections list by connectivity
                    return
            else:
                # element root: only probe with a pattern that cannot match anything
                try:
                    R = call("zzz_nomatch_zzz")
                except Exception as e:  # noqa
                    res.violate("C13:%s:raises:%s" % (tag, type(e).__name__), repr(e))
                    return
                if R:
                    res.violate("C13:hierarchical-getter-ignores-patterns-for-element-roots",
                                "%s(%s, 'zzz_nomatch_zzz') returned %d references" % (
                                    fn_name, rk, len(R)))
                return
        else:
            def value(x):
                v = x.get(key, "")
                return v if isinstance(v, str) else ("" if v is None else str(v))
        values = sorted({value(x) for x in U if value(x)} | (set() if hier else
                                                             getattr(self, "freed", {}).get(key, set())))
        # ---- patterns from the values present
        is_case, is_re = q["is_case"], q["is_re"]
        pats = []
        for pd in q["pats"]:
            v = values[pd["v"] % len(values)] if values else "a"
            kd = pd["kind"]
            if "[" in v or "]" in v:
                v = v.replace("[", "_").replace("]", "_") if not is_re else v
            if kd == "nomatch":
                p = "zzz_nomatch"
            elif kd == "exact":
                p = re.escape(v) if is_re else v
            elif kd == "caseswap":
                p = re.escape(v.swapcase()) if is_re else v.swapcase()
            elif kd == "prefix":
                p = (re.escape(v[:1]) + ".*") if is_re else v[:1] + "*"
            elif kd == "suffix":
                p = (".*" + re.escape(v[-1:])) if is_re else "*" + v[-1:]
            elif kd == "qmark":
                p = (re.escape(v[:-1]) + ".") if is_re else v[:-1] + "?"
            elif kd == "mid":
                m = v[len(v) // 2: len(v) // 2 + 1]
                p = (".*" + re.escape(m) + ".*") if is_re else "*" + m + "*"
            else:
                p = ".*" if is_re else "*"
            if p == "":
                p = "a"
            pats.append(p)
        arg = pats[0] if len(pats) == 1 and q["sel"] % 2 else list(pats)
        opts = {"is_case": is_case, "is_re": is_re}
        try:
            R = call(arg, **opts)
        except Exception as e:  # noqa
            res.violate("C13:%s:raises:%s" % (tag, type(e).__name__), "patterns %r: %r" % (pats, e))
            return
        mode = "regex" if is_re else ("exact" if all(is_absolute(p, is_case, is_re) for p in pats)
                                      else "wildcard")
        mtag = "%s:%s:%s" % (fn_name, mode, "case" if is_case else "nocase")
        res.label("mode-" + mode, "fn-" + fn_name, "root-" + rk)
        Rk = [ident(x) for x in R]
        if len(set(Rk)) != len(Rk):
            res.violate("C13:%s:duplicates" % mtag, "root %s, patterns %r: %d results, %d distinct" % (
                rk, pats, len(Rk), len(set(Rk))))
            return
        lo = {ident(x) for x in U if any(matches(value(x), p, is_case, is_re) for p in pats)}
        hi = set(lo)
        ambiguous = False
        for p in pats:
            if is_absolute(p, is_case, is_re) and not hier:
                # single-result lookup: equal-valued siblings may be represented by one of them;
                # EDIF identifiers may additionally match case-insensitively
                same = [x for x in U if value(x) == p]
                ci = [x for x in U if key == "EDIF.identifier" and value(x).lower() == p.lower()
                      and x.get(".NS") == "EDIF"]
                if len(same) > 1 or len(ci) > len(same):
                    ambiguous = True
                    hi |= {ident(x) for x in ci}
        Rs = set(Rk)
        if ambiguous:
            ok = Rs <= hi and (not lo or Rs)
        else:
            ok = Rs == lo
        if not ok:
            miss, extra = len(lo - Rs), len(Rs - hi)
            res.violate("C13:%s:%s" % (mtag, "missing" if miss else "extra"),
                        "root %s, patterns %r key %r: %d unfiltered, expected %d, got %d (missing %d, "
                        "extra %d)" % (rk, pats, key, len(U), len(lo), len(Rs), miss, extra))
            return
        if U and (0 < len(lo) < len(U) or (len(pats) >= 2 and len(lo) > 0)):
            res.nontrivial = True
        if ambiguous:
            return
        # ---- pattern order independence
        if len(pats) >= 2:
            try:
                R2 = call(list(reversed(pats)), **opts)
            except Exception as e:  # noqa
                res.violate("C13:%s:raises:%s" % (tag, type(e).__name__), repr(e))
                return
            if {ident(x) for x in R2} != Rs:
                res.violate("C13:%s:pattern-order-dependent" % mtag, "root %s %r" % (rk, pats))
                return
        # ---- filter callback
        if q["filter"]:
            pred = (lambda x: id(x) % 2 == 0) if q["filter"] == 1 else (lambda x: False)
            try:
                F = call(list(pats), filter=pred, **opts)
            except Exception as e:  # noqa
                res.violate("C13:%s:filter-raises:%s" % (tag, type(e).__name__), repr(e))
                return
            if sorted(ident(x) for x in F) != sorted(ident(x) for x in R if pred(x)):
                res.violate("C13:%s:filter-callback" % mtag, "root %s" % rk)
                return
        # ---- fast lookup registered or not
        if not hier:
            saved = dict(global_service._registered_lookups)
            try:
                for k in list(saved):
                    global_service.deregister_lookup(k)
                try:
                    R3 = call(list(pats), **opts)
                except Exception as e:  # noqa
                    res.violate("C13:%s:raises-without-fast-lookup:%s" % (tag, type(e).__name__), repr(e))
                    return
            finally:
                for k in list(global_service._registered_lookups):
                    global_service.deregister_lookup(k)
                for k, f in saved.items():
                    global_service.register_lookup(k, f)
            if {ident(x) for x in R3} != Rs:
                res.violate("C13:%s:depends-on-fast-lookup" % mtag,
                            "root %s, patterns %r key %r: %d with, %d without" % (rk, pats, key, len(Rs),
                                                                                 len(R3)))


PROP = C13()
