"""C15 - rejected input fails cleanly and leaves no process-wide residue"""
import json
import os
import re
import tempfile

from hypothesis import strategies as st

from vf import gen_eblif, gen_edif, gen_ir, gen_verilog, model
from vf.core import Prop, Result, case_hash as core_hash
from vf.props.c05 import NAMES

EXT = {"edif": ".edf", "verilog": ".v", "eblif": ".eblif"}
# all three readers create as many pins/wires as an index or width literal says; a 9-digit literal is
# therefore minutes of work, not a hang. Such inputs are outside what the fuzzer is allowed to produce.
HUGE_NUMBER = re.compile(r"\d{5,}")
KINDS = ["truncate", "truncate", "delete", "duplicate", "replace", "replace", "swap", "dangling", "dangling",
         "dangling", "dangling",
         "unsupported", "all-truncations", "garbage", "recursive", "recursive", "dup-construct",
         "dup-construct", "unopenable", "mangle", "mangle", "wide-constant"]
JUNK = ["(", ")", "0", "zz", '"s"', "cell", "net", "module", "endmodule", ";", ",", ".", "[", "]", "{", "}",
        ".model", ".end", ".subckt", "=", "\\", "`celldefine", "(*", "*)", "assign", "wire", "#"]

GOOD = {
    "edif": '(edif good (edifVersion 2 0 0) (edifLevel 0) (keywordMap (keywordLevel 0))\n'
            ' (library work (edifLevel 0) (technology (numberDefinition))\n'
            '  (cell leaf (cellType GENERIC) (view netlist (viewType NETLIST) (interface (port I (direction INPUT)))))\n'
            '  (cell Top (cellType GENERIC) (view netlist (viewType NETLIST) (interface (port a (direction INPUT)))\n'
            '   (contents (instance u0 (viewRef netlist (cellRef leaf)))\n'
            '    (net a (joined (portRef a) (portRef I (instanceRef u0))))))))\n'
            ' (design top (cellRef Top (libraryRef work))))\n',
    "verilog": "module top(a, y);\n  input a;\n  output y;\n  wire n;\n  BUF u0 (.I(a), .O(n));\n"
               "  assign y = n;\nendmodule\n",
    "eblif": ".model top\n.inputs a\n.outputs y\n.subckt BUF I=a O=y\n.cname u0\n.end\n\n"
             ".model BUF\n.inputs I\n.outputs O\n.blackbox\n.end\n",
}


def tokenize(fmt, text):
    if fmt == "edif":
        return re.findall(r'"[^"]*"|[()]|[^\s()"]+', text)
    if fmt == "verilog":
        # (a `timescale directive owns the rest of its line: one token, like a // comment)
        return re.findall(r'//[^\n]*\n?|`timescale[^\n]*\n?|/\*.*?\*/|\(\*|\*\)|\\\S+\s|`\w+|"[^"]*"|'
                          r'[A-Za-z_0-9\'$]+|\S', text, re.S)
    out = []
    for line in text.split("\n"):
        out.extend(line.split())
        out.append("\n")
    return out


def join(fmt, toks):
    if fmt == "eblif":
        return " ".join(toks).replace(" \n ", "\n").replace("\n ", "\n").replace(" \n", "\n")
    out = []
    for t in toks:
        out.append(t)
        # the Verilog reader treats everything after a `directive as part of its line: keep directives
        # (and // comments) on lines of their own, or the rest of the file is silently skipped
        out.append("\n" if t.startswith(("//", "`")) and not t.endswith("\n") else " ")
    return "".join(out)


def parse_string(fmt, text):
    import spydrnet as sdn

    if isinstance(text, (tuple, list)):
        # an input that cannot even be opened: a missing path or a directory with the right extension
        with tempfile.TemporaryDirectory() as td:
            path = os.path.join(td, "t" + EXT[fmt])
            if text[1] == "directory":
                os.mkdir(path)
            return sdn.parse(path)
    with tempfile.TemporaryDirectory() as td:
        path = os.path.join(td, "t" + EXT[fmt])
        with open(path, "w") as fh:
            fh.write(text)
        return sdn.parse(path)


def parse_stream(fmt, text):
    """parse from an in-memory stream through the readers' public from_file_handle entry points
    (used by the fuzz target: no temp file per execution)"""
    import io

    if fmt == "edif":
        from spydrnet.parsers.edif.parser import EdifParser
        p = EdifParser.from_file_handle(io.StringIO(text))
    elif fmt == "verilog":
        from spydrnet.parsers.verilog.parser import VerilogParser
        p = VerilogParser.from_file_handle(io.StringIO(text))
    else:
        from spydrnet.parsers.eblif.eblif_parser import EBLIFParser
        p = EBLIFParser.from_file_handle(io.StringIO(text))
    p.parse()
    return p.netlist


def fingerprint(nl):
    c = model.canon(nl, drop=(".NS", ".NAME", "EDIF.identifier"))
    return repr(c)


SPELLINGS = [("x y", "a.b"), ("a.b", "x y"), ("w/e", "net$1"), ("net$1", "3d"), ("3d", "w/e"),
             ("sig-3", "x y")]


def probe(s1="x y", s2="a.b"):
    """fixed script; its outcome trace must not depend on what was parsed (and rejected) before.
    s1, s2: spellings that are fine as names and illegal as EDIF identifiers (the generated texts
    use them as names): s1 is used as a name first, s2 as an identifier first"""
    import spydrnet as sdn

    t = []
    # the EDIF policy decides names and identifiers by different rules, whatever was asked before
    sdn.namespace_manager.default = "EDIF"
    try:
        n2 = sdn.Netlist(name="probe2")
        D2 = n2.create_library(name="L").create_definition(name="D")
        for tag, fn in (
            ("edif:name:s1", lambda: D2.create_port(name=s1)),
            ("edif:identifier:s1", lambda: D2.ports[0].__setitem__("EDIF.identifier", s1)),
            ("edif:identifier:s2", lambda: D2.create_cable(name="c0").__setitem__("EDIF.identifier", s2)),
            ("edif:name:s2", lambda: D2.create_cable(name=s2)),
            ("edif:identifier:legal", lambda: D2.create_cable(name="c1").__setitem__("EDIF.identifier", "ok_1")),
        ):
            try:
                fn()
                t.append((tag, "accepted"))
            except Exception as e:  # noqa
                t.append((tag, "refused:" + type(e).__name__))
    finally:
        sdn.namespace_manager.default = "DEFAULT"
    t.append(("default", sdn.namespace_manager.default))
    nl = sdn.Netlist(name="probe")
    t.append(("ns-of-new-netlist", nl.data.get(".NS")))
    L = nl.create_library(name="L")
    D = L.create_definition(name="D")
    for tag, fn in (
        ("illegal-identifier", lambda: D.__setitem__("EDIF.identifier", "1 bad-id")),
        ("mixed-case-identifier", lambda: D.__setitem__("EDIF.identifier", "MiXed")),
        ("port-a", lambda: D.create_port(name="a")),
        ("port-A", lambda: D.create_port(name="A")),
        ("port-ids-case", lambda: (D.ports[0].__setitem__("EDIF.identifier", "x"),
                                   D.ports[1].__setitem__("EDIF.identifier", "X"))),
        ("dup-name", lambda: D.create_port(name="a")),
    ):
        try:
            fn()
            t.append((tag, "accepted"))
        except Exception as e:  # noqa
            t.append((tag, "refused:" + type(e).__name__))
    t.append(("lookup", len(list(sdn.get_ports(D, "a"))), len(list(sdn.get_ports(D, "x", key="EDIF.identifier")))))
    for fmt in ("edif", "verilog", "eblif"):
        try:
            g = parse_string(fmt, GOOD[fmt])
            t.append((fmt, "parsed", fingerprint(g), g.data.get(".NS")))
            with tempfile.TemporaryDirectory() as td:
                p = os.path.join(td, "o" + EXT[fmt])
                sdn.compose(g, p)
                txt = open(p).read()
                if fmt == "edif":
                    txt = re.sub(r"\(timeStamp [^)]*\)", "", txt)
                t.append((fmt, "composed", txt))
        except Exception as e:  # noqa
            t.append((fmt, "raised", type(e).__name__, str(e)[:80]))
        t.append(("default-after-" + fmt, sdn.namespace_manager.default))
    return t


_REF = {}


def _plain(t):
    return json.loads(json.dumps(t))


def reference_probe(pair=0):
    """the probe's outcome in a FRESH process (same tree, same environment): what a process that never
    parsed anything sees. One subprocess per spelling pair and worker, cached."""
    import subprocess
    import sys

    pair %= len(SPELLINGS)
    if pair not in _REF:
        code = ("import json,sys; from vf.props import c15; import spydrnet as sdn; "
                "sdn.namespace_manager.default='DEFAULT'; "
                "print('PROBE'+json.dumps(c15.probe(*json.loads(sys.argv[1]))))")
        out = subprocess.run([sys.executable, "-c", code, json.dumps(list(SPELLINGS[pair]))],
                             capture_output=True, text=True, timeout=600,
                             cwd=os.path.dirname(os.path.dirname(os.path.dirname(os.path.abspath(__file__)))))
        line = [l for l in out.stdout.splitlines() if l.startswith("PROBE")]
        if out.returncode != 0 or not line:
            raise RuntimeError("fresh-process probe failed: %s" % (out.stderr[-800:],))
        _REF[pair] = json.loads(line[-1][5:])
    return _REF[pair]


def probe_now(pair=0):
    return _plain(probe(*SPELLINGS[pair % len(SPELLINGS)]))


class C15(Prop):
    ID = "C15"
    RULE = ("valid texts from the three independent writers (small designs) plus a fixed good file per "
            "format; one drawn corruption: truncation at a token boundary (or ALL token boundaries of the "
            "text), deletion / duplication / replacement / swap of a token, role-aware dangling "
            "references in EDIF (cellRef, libraryRef, portRef, member, instanceRef, design cellRef/"
            "libraryRef -> undeclared identifier), unsupported constructs, garbage; followed by 0-2 "
            "further corrupted parses of other formats. Oracle per parse: terminates (watchdog of 150 s per "
            "case of <=100 parses that take milliseconds each), either raises an Exception or returns a strictly well-formed netlist, dangling "
            "references and unsupported constructs must raise, namespace_manager.default is unchanged by "
            "the call; finally a fixed probe script (element creation under the current policy, legal/"
            "illegal/case-colliding identifiers, lookups, parse+compose of one good file per format) must "
            "give the same outcome trace as in a fresh state. non-trivial = the corruption changed the "
            "token stream and the uncorrupted text parses; distinct = distinct case JSON")
    ASSUMPTIONS = ["any Exception subclass counts as a clean rejection",
                   "numeric literals of 5+ digits are excluded from fuzzer inputs: every reader creates "
                   "as many pins/wires as an index or width says (time proportional to the literal)",
                   "a hang is reported only through the per-case watchdog (150 s for up to ~100 parses of "
                   "texts that parse in milliseconds)"]
    N = {"quick": 3600, "thorough": 40000}
    CASE_TIMEOUT_S = 150    # a case is up to ~100 parses + the probe (normally < 2 s in total)
    PARSE_LIMIT_S = 20      # a single parse of these small texts normally takes milliseconds

    def strategy(self, tier):
        ecfg = gen_ir.Cfg(unnamed=False, alphabet=NAMES, max_defs=6, max_children=4, max_width=3,
                          share=True, top="always", lib_monotone=True, reorder=False,
                          top_modes=["standalone"], data_values="edif")
        stream = st.lists(st.integers(0, 63), min_size=8, max_size=24)
        corr = st.fixed_dictionaries({"kind": st.sampled_from(KINDS), "pos": st.integers(0, 5000),
                                      "with": st.integers(0, 200)})
        return st.fixed_dictionaries({
            "fmt": st.sampled_from(["edif", "edif", "verilog", "eblif"]),
            "edif": st.fixed_dictionaries({"design": gen_ir.recipes(ecfg), "stream": stream}),
            "verilog": gen_verilog.designs(max_mods=3, max_insts=3),
            "eblif": gen_eblif.designs(max_stmts=4),
            "corruption": corr,
            "initial_policy": st.sampled_from(["DEFAULT", "DEFAULT", "EDIF"]),
            "suffix": st.lists(st.tuples(st.sampled_from(["edif", "verilog", "eblif"]), corr).map(list),
                               max_size=2),
        })

    # -------------------------------------------------------------------------------------------
    def texts(self, case):
        out = {}
        B = gen_ir.build(case["edif"]["design"])
        out["edif"] = gen_edif.render(model.canon(B.netlist), case["edif"]["stream"])[0]
        d = dict(case["verilog"])
        out["verilog"] = gen_verilog.text_of(d)[0] if gen_verilog.in_domain(d) else GOOD["verilog"]
        d = dict(case["eblif"])
        out["eblif"] = gen_eblif.render(d)[0] if gen_eblif.in_domain(d) else GOOD["eblif"]
        return out

    # ---- a small exhaustive family: every way a cellRef / instanceRef can (fail to) resolve across two
    # libraries that may both declare a cell X and two cells that each have an instance
    def fixed_cases(self, tier):
        import itertools
        return [{"refmatrix": list(c)} for c in itertools.product(
            [0, 1], [0, 1], ["A", "B", "none", "C"], ["own", "foreign"], [0, 1], [0, 1])]

    def run_refmatrix(self, res, m):
        import spydrnet as sdn

        y_with_libref, b_has_x, target, iref, upper = m[:5]
        y_net = m[5] if len(m) > 5 else 1   # is x1's pin already on a net inside Y
        res.label("reference-matrix")
        kw = (lambda t: t.upper()) if upper else (lambda t: t)
        x_cell = '(cell X (cellType GENERIC) (view netlist (viewType NETLIST) (interface (port %s (direction INPUT)))))'
        libA = ('(library A (edifLevel 0) (technology (numberDefinition)) ' + x_cell % "I" +
                ' (cell Y (cellType GENERIC) (view netlist (viewType NETLIST) (interface (port a (direction INPUT)))'
                ' (contents (instance x1 (viewRef netlist (cellRef X%s)))%s))))' % (
                    " (libraryRef A)" if y_with_libref else "",
                    " (net a (joined (portRef a) (portRef I (instanceRef x1))))" if y_net else ""))
        ref = {"A": " (libraryRef %s)" % kw("A"), "B": " (libraryRef %s)" % kw("B"), "none": "",
               "C": " (libraryRef C)"}[target]
        inst_for_net = "z1" if iref == "own" else "x1"
        libB = ('(library B (edifLevel 0) (technology (numberDefinition)) ' +
                ((x_cell % "J") if b_has_x else "") +
                ' (cell Z (cellType GENERIC) (view netlist (viewType NETLIST) (interface (port b (direction INPUT)))'
                ' (contents (instance z1 (viewRef netlist (cellRef %s%s)))'
                ' (net b (joined (portRef b) (portRef %s (instanceRef %s))))))))' % (
                    kw("X"), ref, "%PORT%", kw(inst_for_net)))
        # which X does z1 resolve to, if any
        if target == "A":
            bound = "A"
        elif target in ("B", "none"):
            bound = "B" if b_has_x else None
        else:
            bound = None
        port = "I" if iref == "foreign" else {"A": "I", "B": "J", None: "I"}[bound]
        text = ('(edif refm (edifVersion 2 0 0) (edifLevel 0) (keywordMap (keywordLevel 0)) ' + libA + " " +
                libB.replace("%PORT%", port) + ' (design top (cellRef Z (libraryRef B))))')
        valid = bound is not None and iref == "own"
        sdn.namespace_manager.default = "DEFAULT"
        try:
            nl = parse_string("edif", text)
            raised = None
        except Exception as e:  # noqa
            nl, raised = None, e
        if sdn.namespace_manager.default != "DEFAULT":
            res.violate("C15:edif:policy-not-restored-after-%s" % ("rejection" if raised else "success"),
                        "reference matrix %r" % (m,))
            sdn.namespace_manager.default = "DEFAULT"
        tag = "cellref-%s:instanceref-%s" % (target if bound else target + "-missing", iref)
        if not valid:
            if raised is None:
                res.violate("C15:edif:accepted-dangling-reference:%s" % tag, "matrix %r\n%s" % (m, text))
            res.nontrivial = True
            return res
        if raised is not None:
            res.violate("C15:edif:valid-reference-rejected:%s:%s" % (tag, type(raised).__name__),
                        "matrix %r: %r\n%s" % (m, raised, text))
            return res
        for code, detail in model.wf(nl, strict=True):
            res.violate("C15:edif:accepted-text-gives-ill-formed-netlist:%s" % code, "matrix %r: %s" % (m, detail))
            return res
        Z = next(sdn.get_definitions(nl, "Z"), None)
        z1 = next(iter(Z.children), None) if Z is not None else None
        got = z1.reference.library.name if z1 is not None and z1.reference is not None else None
        if got != bound:
            res.violate("C15:edif:reference-bound-to-wrong-library:%s" % tag,
                        "matrix %r: z1 -> %r, the text says %r" % (m, got, bound))
        return res

    def corrupt(self, fmt, text, c):
        """-> list of (corrupted text, must_raise, label)"""
        toks = tokenize(fmt, text)
        n = len(toks)
        kind, pos, w = c["kind"], c["pos"], c["with"]
        if n == 0:
            return [("", False, "empty")]
        i = pos % n
        if kind == "truncate":
            return [(join(fmt, toks[:i]), False, "truncate")]
        if kind == "all-truncations":
            step = max(1, n // 100)
            return [(join(fmt, toks[:k]), False, "truncate") for k in range(0, n, step)]
        if kind == "delete":
            return [(join(fmt, toks[:i] + toks[i + 1:]), False, "delete")]
        if kind == "duplicate":
            return [(join(fmt, toks[:i] + [toks[i]] + toks[i:]), False, "duplicate")]
        if kind == "replace":
            other = JUNK[w % len(JUNK)] if w % 2 else toks[w % n]
            return [(join(fmt, toks[:i] + [other] + toks[i + 1:]), False, "replace")]
        if kind == "swap":
            j = w % n
            t2 = list(toks)
            t2[i], t2[j] = t2[j], t2[i]
            return [(join(fmt, t2), False, "swap")]
        if kind == "garbage":
            return [(join(fmt, toks[:i]) + " \x00\x07 %s ((( " % JUNK[w % len(JUNK)] + join(fmt, toks[i:]),
                     False, "garbage")]
        if kind == "mangle":
            # an identifier-like token gets an illegal tail (a long token plus a character the
            # identifier rule rejects is where a careless regular expression starts to crawl)
            idx = [k for k in range(n) if re.fullmatch(r"[A-Za-z_&\\][A-Za-z0-9_]*", toks[k] or "")]
            if not idx:
                return [(join(fmt, toks[:i]), False, "truncate")]
            longest = sorted(idx, key=lambda k: -len(toks[k]))[:max(3, len(idx) // 4)]
            k = longest[pos % len(longest)]
            tail = ["-x", "[0]", "$", ".", "-", "!", "_-_x"][w % 7]
            t2 = list(toks)
            t2[k] = toks[k] + tail
            return [(join(fmt, t2), False, "mangle")]
        if kind == "wide-constant" and fmt == "verilog":
            # sized binary constants wider than one bit are not supported: to be refused, whatever
            # the number of digits of the width
            idx = [k for k in range(n) if re.fullmatch(r"1'b[01]", toks[k] or "")]
            if not idx:
                return [(join(fmt, toks[:i]), False, "truncate")]
            k = idx[pos % len(idx)]
            t2 = list(toks)
            t2[k] = ["2'b01", "10'b0", "12'b1", "16'b0", "100'b1", "9'b0"][w % 6]
            return [(join(fmt, t2), True, "wide-constant")]
        if kind == "unopenable":
            return [(("PATH", "missing" if w % 2 else "directory"), True, "unopenable")]
        if kind == "dup-construct":
            # a whole declaration written twice (same identifier again): to be refused, or read into
            # a well-formed netlist
            if fmt == "edif":
                role = ["instance", "instance", "net", "port", "cell", "library", "property"][w % 7]
                heads = [k for k in range(n - 1) if toks[k] == "(" and toks[k + 1].lower() == role]
                if not heads:
                    heads = [k for k in range(n - 1) if toks[k] == "(" and toks[k + 1].lower() in (
                        "instance", "net", "port", "cell", "library", "property")]
                if not heads:
                    return [(join(fmt, toks[:i]), False, "truncate")]
                k = heads[pos % len(heads)]
                depth, j = 0, k
                while j < n:
                    if toks[j] == "(":
                        depth += 1
                    elif toks[j] == ")":
                        depth -= 1
                        if depth == 0:
                            break
                    j += 1
                return [(join(fmt, toks[:j + 1] + toks[k:j + 1] + toks[j + 1:]), False,
                         "dup-" + toks[k + 1].lower())]
            if fmt == "verilog":
                ends = [k for k in range(n) if toks[k] == ";"]
                if len(ends) < 2:
                    return [(join(fmt, toks[:i]), False, "truncate")]
                e = 1 + pos % (len(ends) - 1)
                a, b = ends[e - 1] + 1, ends[e] + 1
                return [(join(fmt, toks[:b] + toks[a:b] + toks[b:]), False, "dup-statement")]
            ends = [k for k in range(n) if toks[k] == "\n"]
            if len(ends) < 2:
                return [(join(fmt, toks[:i]), False, "truncate")]
            e = 1 + pos % (len(ends) - 1)
            a, b = ends[e - 1] + 1, ends[e] + 1
            return [(join(fmt, toks[:b] + toks[a:b] + toks[b:]), False, "dup-line")]
        if kind == "recursive":
            # a module/cell/model that (directly or through others) instantiates itself: invalid, must
            # be rejected or read without hanging
            if fmt == "verilog":
                mods = [toks[k + 1].strip() for k in range(n - 1) if toks[k] == "module"]
                ends = [k for k in range(n) if toks[k] == "endmodule"]
                if not mods or len(ends) != len(mods):
                    return [(join(fmt, toks[:i]), False, "truncate")]
                t = pos % len(mods)
                s_ = t if w % 2 else (w // 2) % len(mods)   # half of them: direct self-instantiation
                ins = []
                for r in range(1 + (w // 2) % 3):
                    ins += [mods[s_], "rec_%d" % r, "(", ")", ";"]
                k = ends[t]
                return [(join(fmt, toks[:k] + ins + toks[k:]), False, "recursive")]
            if fmt == "eblif":
                models = [toks[k + 1] for k in range(n - 1) if toks[k] == ".model"]
                ends = [k for k in range(n) if toks[k] == ".end"]
                if not models or len(ends) != len(models):
                    return [(join(fmt, toks[:i]), False, "truncate")]
                t = pos % len(models)
                s_ = t if w % 2 else (w // 2) % len(models)
                ins = []
                for r in range(1 + (w // 2) % 3):
                    ins += [".subckt", models[s_], "zz=zz_%d" % r, "\n"]
                k = ends[t]
                return [(join(fmt, toks[:k] + ins + toks[k:]), False, "recursive")]
            cells = [toks[k + 1] if toks[k + 1] != "(" else toks[k + 3] for k in range(n - 3)
                     if toks[k].lower() == "cell" and toks[k - 1] == "("]
            conts = [k for k in range(1, n) if toks[k].lower() == "contents" and toks[k - 1] == "("]
            if not cells or not conts:
                return [(join(fmt, toks[:i]), False, "truncate")]
            k = conts[pos % len(conts)] + 1
            ins = []
            for r in range(1 + w % 3):
                ins += tokenize("edif", "(instance rec_%d (viewRef netlist (cellRef %s)))" % (
                    r, cells[w % len(cells)]))
            return [(join(fmt, toks[:k] + ins + toks[k:]), False, "recursive")]
        if fmt != "edif":
            return [(join(fmt, toks[:i]), False, "truncate")]
        if kind == "dangling":
            roles = ["cellref", "libraryref", "instanceref", "portref", "member", "libraryref-other",
                     "instanceref-other-cell", "cellref-implicit-library", "instanceref-other-cell",
                     "cellref-implicit-library", "libraryref-other"]
            role = roles[w % len(roles)]
            if role in ("instanceref-other-cell", "cellref-implicit-library"):
                # references that name something declared ELSEWHERE in the file (another cell's
                # instance; a cell of another library reached without libraryRef): dangling where
                # they stand, although a resolver that remembers names globally would bind them
                def ident_at(k):
                    return toks[k] if toks[k] != "(" else toks[k + 2]
                stack, lib, cell = [], None, None
                cells_of, insts_of = {}, {}
                irefs, crefs = [], []
                for k in range(n):
                    t = toks[k]
                    if t == "(":
                        kwd = toks[k + 1].lower() if k + 1 < n else ""
                        stack.append(kwd)
                        if kwd in ("library", "external") and k + 2 < n:
                            lib = ident_at(k + 2).lower()
                            cells_of.setdefault(lib, set())
                        elif kwd == "cell" and k + 2 < n and lib is not None:
                            cell = (lib, ident_at(k + 2).lower())
                            cells_of[lib].add(cell[1])
                            insts_of.setdefault(cell, set())
                        elif kwd == "instance" and k + 2 < n and cell is not None:
                            insts_of[cell].add(ident_at(k + 2).lower())
                        elif kwd == "instanceref" and k + 2 < n and cell is not None:
                            irefs.append((k + 2, cell))
                        elif kwd == "cellref" and k + 2 < n and lib is not None and "design" not in stack:
                            has_lib = k + 4 < n and toks[k + 3] == "(" and toks[k + 4].lower() == "libraryref"
                            crefs.append((k + 2, lib, has_lib))
                    elif t == ")" and stack:
                        kwd = stack.pop()
                        if kwd == "cell":
                            cell = None
                        elif kwd in ("library", "external"):
                            lib = None
                if role == "instanceref-other-cell":
                    cands = []
                    for k, c in irefs:
                        for c2, names in sorted(insts_of.items()):
                            if c2 != c:
                                for nm in sorted(names - insts_of.get(c, set())):
                                    cands.append((k, nm))
                    if not cands:
                        return [(join(fmt, toks[:i]), False, "truncate")]
                    k, nm = cands[pos % len(cands)]
                    t2 = list(toks)
                    t2[k] = nm
                    return [(join(fmt, t2), True, "dangling-instanceref-other-cell")]
                cands = []
                for k, here, has_lib in crefs:
                    if has_lib and toks[k + 3].lower() != here and toks[k].lower() not in cells_of.get(here, set()):
                        cands.append(k)
                if not cands:
                    return [(join(fmt, toks[:i]), False, "truncate")]
                k = cands[pos % len(cands)]
                # drop "( libraryRef X )": four tokens after the cell identifier
                return [(join(fmt, toks[:k + 1] + toks[k + 5:]), True, "dangling-cellref-implicit-library")]
            if role == "libraryref-other":
                # a cellRef pointed at another DECLARED library that has no such cell: as dangling as
                # an undeclared name (a resolver remembering cells by identifier alone would bind it)
                libs, cur = {}, None
                for k in range(n - 2):
                    if toks[k] == "(" and toks[k + 1].lower() in ("library", "external"):
                        nm = toks[k + 2] if toks[k + 2] != "(" else toks[k + 4]
                        cur = nm.lower()
                        libs.setdefault(cur, set())
                    elif toks[k] == "(" and toks[k + 1].lower() == "cell" and cur is not None:
                        nm = toks[k + 2] if toks[k + 2] != "(" else toks[k + 4]
                        libs[cur].add(nm.lower())
                refs = [k for k in range(n - 5) if toks[k].lower() == "cellref" and toks[k + 2] == "("
                        and toks[k + 3].lower() == "libraryref"]
                cands = []
                for k in refs:
                    cell, lib = toks[k + 1].lower(), toks[k + 4].lower()
                    for other in sorted(libs):
                        if other != lib and cell not in libs[other]:
                            cands.append((k, other))
                if not cands:
                    return [(join(fmt, toks[:i]), False, "truncate")]
                k, other = cands[pos % len(cands)]
                t2 = list(toks)
                t2[k + 4] = other
                return [(join(fmt, t2), True, "dangling-libraryref-other")]
            idx = [k for k in range(n - 1) if toks[k].lower() == role and toks[k + 1] not in ("(", ")")]
            if not idx:
                return [(join(fmt, toks[:i]), False, "truncate")]
            k = idx[pos % len(idx)]
            t2 = list(toks)
            t2[k + 1] = "zz_undeclared_9"
            return [(join(fmt, t2), True, "dangling-" + role)]
        # unsupported constructs at a place where the grammar allows them
        anchors = {"interface": ["(portBundle pb)", "(symbol)", "(joined)", "(parameter p)"],
                   "contents": ["(netBundle nb)", "(page p1)", "(figure f)", "(portImplementation p)"],
                   "edif": ["(userData extra)"], "cell": ["(viewMap)"], "joined": ["(portList)"],
                   "instance": ["(viewList)"]}
        key = sorted(anchors)[w % len(anchors)]
        idx = [k for k in range(n) if toks[k].lower() == key and k > 0 and toks[k - 1] == "("]
        if not idx:
            return [(join(fmt, toks[:i]), False, "truncate")]
        k = idx[pos % len(idx)]
        # insert right before the closing parenthesis of that construct
        depth, j = 0, k
        while j < n:
            if toks[j] == "(":
                depth += 1
            elif toks[j] == ")":
                if depth == 0:
                    break
                depth -= 1
            j += 1
        ins = anchors[key][pos % len(anchors[key])]
        return [(join(fmt, toks[:j] + tokenize("edif", ins) + toks[j:]), True, "unsupported-" + key)]

    def one_parse(self, res, fmt, text, must_raise, label):
        import spydrnet as sdn

        import time

        before = sdn.namespace_manager.default
        raised = None
        nl = None
        t0 = time.time()
        try:
            nl = parse_string(fmt, text)
        except Exception as e:  # noqa: a clean rejection
            raised = e
        if time.time() - t0 > self.PARSE_LIMIT_S:
            res.label("slow-parse(>%ds, inconclusive)" % self.PARSE_LIMIT_S)
        after = sdn.namespace_manager.default
        if after != before:
            res.violate("C15:%s:policy-not-restored-after-%s" % (fmt, "rejection" if raised else "success"),
                        "%s: default was %r, is %r after a %s parse (%s)" % (
                            fmt, before, after, "rejected" if raised else "successful", label))
            sdn.namespace_manager.default = before
        if raised is None:
            if must_raise:
                res.violate("C15:%s:accepted-%s" % (fmt, label), str(text)[:600])
            if nl is None:
                res.violate("C15:%s:returned-none" % fmt, label)
            else:
                for code, detail in model.wf(nl, strict=True):
                    res.violate("C15:%s:accepted-text-gives-ill-formed-netlist:%s" % (fmt, code),
                                "%s (%s)\n%s" % (detail, label, str(text)[:800]))
                    break
        return raised

    def run(self, case):
        import spydrnet as sdn

        res = Result()
        pair = int(core_hash(case), 16) % len(SPELLINGS)
        ref = reference_probe(pair)
        if "refmatrix" in case:
            return self.run_refmatrix(res, case["refmatrix"])
        if "raw" in case:
            # an input saved by the coverage-guided fuzzer
            fmt, text = case["raw"]["fmt"], case["raw"]["text"]
            res.label("fuzzer-artifact")
            if HUGE_NUMBER.search(text):
                res.label("huge-literal(out of domain)")
                return res
            sdn.namespace_manager.default = "DEFAULT"
            self.one_parse(res, fmt, text, False, "fuzzer-input")
            sdn.namespace_manager.default = "DEFAULT"
            if probe_now(pair) != ref:
                res.violate("C15:residue-after-%s-parses:fuzzer-input" % fmt, text[:300])
            return res
        texts = self.texts(case)
        fmt = case["fmt"]
        if case["corruption"]["kind"] in ("dangling", "unsupported"):
            fmt = "edif"   # these corruption kinds are defined on EDIF constructs
        sdn.namespace_manager.default = case.get("initial_policy", "DEFAULT")
        res.label("format-" + fmt, "initial-" + sdn.namespace_manager.default)
        # does the uncorrupted text parse?
        try:
            parse_string(fmt, texts[fmt])
            ok = True
        except Exception:  # noqa (C05/C06/C18 decide that)
            ok = False
            res.label("original-rejected")
        sdn.namespace_manager.default = case.get("initial_policy", "DEFAULT")
        rejected = 0
        variants = self.corrupt(fmt, texts[fmt], case["corruption"])
        for text, must, label in variants:
            res.label("corruption-" + label.split("-")[0])
            if self.one_parse(res, fmt, text, must, label) is not None:
                rejected += 1
            if res.violations:
                return res
        if ok and any(t != texts[fmt] for t, _, _ in variants):
            res.nontrivial = True
        if rejected:
            res.label("rejected")
        for f2, c2 in case.get("suffix", []):
            for text, must, label in self.corrupt(f2, texts[f2], c2)[:3]:
                self.one_parse(res, f2, text, must, label)
                if res.violations:
                    return res
        # the probe: same behaviour as in a fresh process
        sdn.namespace_manager.default = "DEFAULT"
        now = probe_now(pair)
        if now != ref:
            k = next((i for i, (a, b) in enumerate(zip(ref, now)) if a != b), min(len(ref), len(now)))
            what = ref[k][0] if k < len(ref) else "length"
            res.violate("C15:residue-after-%s-parses:%s" % (fmt, what), "fresh: %r\nnow:   %r" % (
                str(ref[k])[:300] if k < len(ref) else None, str(now[k])[:300] if k < len(now) else None))
        res.extra["parses"] = len(variants) + len(case.get("suffix", []))
        res.extra["rejected"] = rejected
        return res


    # -------------------------------------------------------------------------------------------
    def post(self, tier, seed):
        """thorough tier: coverage-guided fuzzing of each reader with the same oracle in the target"""
        import glob
        import shutil
        import subprocess
        import sys
        import zipfile

        if tier != "thorough":
            return {}
        here = os.path.dirname(os.path.dirname(os.path.dirname(os.path.abspath(__file__))))
        env = dict(os.environ)
        try:
            sys.path.insert(0, os.path.join(here, ".deps"))
            import atheris  # noqa
        except Exception as e:  # noqa
            return {"fuzzing": "atheris not importable (%r): Hypothesis campaign only" % (e,)}
        repo = os.environ.get("VERIF_REPO", "/repo")
        runs = int(os.environ.get("VERIF_FUZZ_RUNS", "60000"))
        budget = int(os.environ.get("VERIF_FUZZ_SECONDS", "420"))
        work = tempfile.mkdtemp(prefix="vf_c15_fuzz_")
        procs = []
        exdir = {"edif": "EDIF_netlists", "verilog": "verilog_netlists", "eblif": "eblif_netlists"}
        try:
            for fmt in ("edif", "verilog", "eblif"):
                files = sorted(glob.glob(os.path.join(repo, "example_netlists", exdir[fmt], "*.zip")),
                               key=os.path.getsize)[:3]
                for k in range(5):
                    corpus = os.path.join(work, "%s_corpus_%d" % (fmt, k))
                    art = os.path.join(work, "%s_art_%d_" % (fmt, k))
                    os.makedirs(corpus)
                    if k > 0:  # shard 0 starts from an empty corpus
                        with open(os.path.join(corpus, "good"), "w") as fh:
                            fh.write(GOOD[fmt])
                        for f in files[:k]:
                            try:
                                z = zipfile.ZipFile(f)
                                data = z.read(z.namelist()[0])
                                if len(data) < 20000:
                                    open(os.path.join(corpus, os.path.basename(f)), "wb").write(data)
                            except Exception:  # noqa
                                pass
                    cmd = ["/venv/bin/python", "-m", "vf.fuzz_c15", fmt, corpus, "-runs=%d" % runs,
                           "-seed=%d" % (seed * 100 + k + 1), "-timeout=20", "-max_len=4096",
                           "-max_total_time=%d" % budget, "-artifact_prefix=" + art]
                    log = open(os.path.join(work, "%s_%d.log" % (fmt, k)), "w")
                    procs.append((fmt, k, art, subprocess.Popen(cmd, cwd=here, env=env, stdout=log,
                                                                stderr=subprocess.STDOUT), log))
            info = {"fuzzing": "atheris/libFuzzer, 5 shards per reader (shard 0 from an empty corpus)",
                    "fuzz_executions": 0, "fuzz_artifacts": 0}
            found = []
            for fmt, k, art, p, log in procs:
                try:
                    p.wait(timeout=budget + 120)
                except subprocess.TimeoutExpired:
                    p.kill()
                log.close()
                txt = open(log.name, errors="replace").read()
                m = re.findall(r"Done (\d+) runs", txt)
                if m:
                    info["fuzz_executions"] += int(m[-1])
                else:
                    m = re.findall(r"#(\d+)\s", txt)
                    if m:
                        info["fuzz_executions"] += int(m[-1])
                for f in glob.glob(art + "*"):
                    info["fuzz_artifacts"] += 1
                    data = open(f, "rb").read().decode("utf-8", "ignore")
                    found.append({"raw": {"fmt": fmt, "text": data, "kind": os.path.basename(f)}})
            info["cases"] = found
            return info
        finally:
            shutil.rmtree(work, ignore_errors=True)


PROP = C15()
