"""C10 - sibling names stay unique and exact-name lookup always agrees with a scan"""
import re

from vf import gen_ir, ops
from vf.core import Prop, Result
from vf.props.c01 import build_universe, case_strategy

NAMES = ["a", "A", "b", "B", "a_1", ""]
VALUES = {".NAME": ["a", "A", "b", "B", "a_1", ""],
          "EDIF.identifier": ["a", "A", "b", "B", "aB", "Ab", "AB", "b_", "&1", "c"]}
KEYS = [".NAME", "EDIF.identifier", ".NAME", "EDIF.identifier", "K"]

ZERO = ["nl.libraries=", "nl.top=", "nl.set_top_instance", "lib.definitions=", "def.ports=", "def.cables=",
        "def.children=", "port.create_pin", "port.create_pins", "port.add_pin", "port.remove_pin",
        "port.remove_pins_from", "port.pins=", "port.direction=", "cable.create_wire",
        "cable.create_wires", "cable.add_wire", "cable.remove_wire", "cable.remove_wires_from",
        "cable.wires=", "bundle.is_downto=", "bundle.is_scalar=", "bundle.is_array=",
        "bundle.lower_index=", "wire.connect_pin", "wire.disconnect_pin", "wire.disconnect_pins_from",
        "wire.pins=", "inst.reference=", "inst.del_reference", "proxy.new", "pin.new", "wire.new",
        "nl.new"]
WEIGHTS = {k: 0 for k in ZERO}
WEIGHTS.update({"el.name=": 10, "el.del_name": 3, "el.set": 10, "el.del": 4, "el.pop": 4,
                "el.clone_container": 2, "ns.default=": 2,
                "def.create_port": 3, "def.create_cable": 3, "def.create_child": 3,
                "lib.create_definition": 3, "nl.create_library": 3,
                "def.add_port": 4, "def.add_cable": 4, "def.add_child": 4, "lib.add_definition": 4,
                "nl.add_library": 4, "def.remove_port": 3, "def.remove_cable": 3, "def.remove_child": 3,
                "lib.remove_definition": 3, "nl.remove_library": 3,
                "port.new": 2, "cable.new": 2, "inst.new": 2, "def.new": 2, "lib.new": 2})


def legal(ident):
    """EDIF identifier rule, written from the documentation (not from the implementation)"""
    if not isinstance(ident, str):
        return False
    if ident.startswith("&"):
        return re.fullmatch(r"&[A-Za-z0-9_]{1,255}", ident) is not None
    return re.fullmatch(r"[A-Za-z][A-Za-z0-9_]{0,254}", ident) is not None


def policy(el):
    return el.data[".NS"] if ".NS" in el.data else None


def scopes_of(parent):
    """(tag, children list, getter) for each naming scope of a container"""
    import spydrnet as sdn

    if isinstance(parent, sdn.Netlist):
        return [("libraries", list(parent.libraries), sdn.get_libraries)]
    if isinstance(parent, sdn.Library):
        return [("definitions", list(parent.definitions), sdn.get_definitions)]
    if isinstance(parent, sdn.Definition):
        return [("ports", list(parent.ports), sdn.get_ports),
                ("cables", list(parent.cables), sdn.get_cables),
                ("instances", list(parent.children), sdn.get_instances)]
    return []


def parent_and_siblings(el):
    """(parent, siblings of the same kind including el) or (None, [])"""
    import spydrnet as sdn

    if isinstance(el, sdn.Library):
        p = el.netlist
        return p, (list(p.libraries) if p is not None else [])
    if isinstance(el, sdn.Definition):
        p = el.library
        return p, (list(p.definitions) if p is not None else [])
    if isinstance(el, sdn.Port):
        p = el.definition
        return p, (list(p.ports) if p is not None else [])
    if isinstance(el, sdn.Cable):
        p = el.definition
        return p, (list(p.cables) if p is not None else [])
    if isinstance(el, sdn.Instance):
        p = el.parent
        return p, (list(p.children) if p is not None else [])
    return None, []


def conflicts(el, siblings, key, value, pol):
    """would giving `el` the value under key collide with another sibling (scan)"""
    if value is None:
        return False
    for s in siblings:
        if s is el or key not in s.data:
            continue
        other = s.data[key]
        if other is None:
            continue
        if key == ".NAME":
            if other == value:
                return True
        elif pol == "EDIF":
            if isinstance(other, str) and other.lower() == value.lower():
                return True
    return False


def siblings_in(parent, child):
    import spydrnet as sdn

    if isinstance(child, sdn.Library):
        return list(parent.libraries)
    if isinstance(child, sdn.Definition):
        return list(parent.definitions)
    if isinstance(child, sdn.Port):
        return list(parent.ports)
    if isinstance(child, sdn.Cable):
        return list(parent.cables)
    return list(parent.children)


class NamingMonitor:
    """predicts refusal of every naming edit from a scan; checks scopes and lookups after the step"""

    def __init__(self, res, U):
        self.res = res
        self.U = U
        self.expect = None
        self.stats = {"collide": 0, "lookup_hit": 0, "lookups": 0, "readd_or_rename": 0,
                      "refused_dup": 0, "refused_illegal": 0, "clone_ops": 0}
        self.removed_or_renamed = set()  # values freed earlier in the history

    # ---------------------------------------------------------------- prediction
    def predict(self, call):
        """(refused?, reason) or None when the call is outside the naming model"""
        n = call.name
        args = call.args
        if n.endswith(".new"):
            return None  # decided below via props (needs policy of the new element = default)
        if n in ("nl.create_library", "lib.create_definition", "def.create_port", "def.create_cable",
                 "def.create_child"):
            return None
        kind = call.meta.get("kind")
        if kind == "add":
            P, child = call.target, call.meta["element"]
            par, _ = parent_and_siblings(child)
            if par is not None:
                return (True, "already-has-parent")
            pol = policy(P)
            sib = siblings_in(P, child)
            if any(x is child for x in sib):
                return (True, "already-member")
            if policy(child) != pol:
                return None
            for key in (".NAME", "EDIF.identifier"):
                if key in child.data and conflicts(child, sib, key, child.data[key], pol):
                    return (True, "duplicate")
            return (False, "")
        if kind == "remove" and "_from" not in n:
            P, child = call.target, call.meta["elements"][0]
            par, _ = parent_and_siblings(child)
            return (par is not P, "not-a-member")
        if n == "el.name=" or (n == "el.set" and args[0] == ".NAME"):
            E = call.target
            v = args[0] if n == "el.name=" else args[1]
            if v is None:
                return (False, "")
            par, sib = parent_and_siblings(E)
            if par is None:
                return (False, "")
            return (conflicts(E, sib, ".NAME", v, policy(par)), "duplicate")
        if n == "el.del_name":
            return (False, "")
        if n == "el.set" and args[0] == "EDIF.identifier":
            E, v = call.target, args[1]
            pol = policy(E)
            if pol == "EDIF" and not legal(v):
                return (True, "illegal")
            par, sib = parent_and_siblings(E)
            if par is None:
                return (False, "")
            return (conflicts(E, sib, "EDIF.identifier", v, policy(par)), "duplicate")
        if n in ("el.del", "el.pop"):
            return (args[0] not in call.target.data, "key-absent")
        if n == "el.set":
            return (False, "")
        return None

    def warm(self, call):
        """ask for the element the call is about to remove / rename right before the call (an answer
        remembered from this lookup must not survive the call): same question first thing after"""
        import spydrnet as sdn

        self.probes = []
        kind = call.meta.get("kind")
        E = None
        if kind == "remove" and call.meta.get("elements"):
            E = call.meta["elements"][0]
        elif call.name.startswith("el.") and call.name != "el.clone_container":
            E = call.target
        if E is None or not hasattr(E, "data"):
            return
        par, _ = parent_and_siblings(E)
        if par is None or policy(par) is None:
            return
        getter = {sdn.Library: sdn.get_libraries, sdn.Definition: sdn.get_definitions,
                  sdn.Port: sdn.get_ports, sdn.Cable: sdn.get_cables,
                  sdn.Instance: sdn.get_instances}.get(type(E))
        if getter is None:
            return
        for key in (".NAME", "EDIF.identifier"):
            v = E.data.get(key)
            if isinstance(v, str) and v and "*" not in v and "?" not in v:
                try:
                    list(getter(par, v, key=key))
                except Exception:  # noqa
                    continue
                self.probes.append((par, getter, key, v, type(E)))

    def recheck(self):
        for par, getter, key, v, typ in getattr(self, "probes", []):
            pol = policy(par)
            sib = [c for _, children, _g in scopes_of(par) for c in children if type(c) is typ]
            if key == ".NAME" or pol != "EDIF":
                scan = [c for c in sib if c.data.get(key) == v]
            else:
                scan = [c for c in sib if isinstance(c.data.get(key), str) and c.data[key].lower() == v.lower()]
            try:
                got = list(getter(par, v, key=key))
            except Exception as e:  # noqa
                self.res.violate("C10:lookup-raises:%s:%s" % (key, type(e).__name__), repr(e))
                return
            gi, si = sorted(id(x) for x in got), sorted(id(x) for x in scan)
            ok = gi == si if len(scan) <= 1 else (len(gi) >= 1 and set(gi) <= set(si))
            if not ok:
                self.res.violate("C10:lookup-differs-from-scan:%s:%s:%s:repeated-right-after-the-edit" % (
                    key, pol, "miss" if len(gi) < len(si) else "ghost"),
                    "value %r: lookup returned %d element(s), scan finds %d" % (v, len(gi), len(si)))
                return

    def before(self, U, call):
        self.expect = self.predict(call)
        self.warm(call)
        self.inv = []
        for o in [call.target] + [a for a in call.args if not isinstance(a, (str, int, list, tuple))]:
            if o is None:
                continue
            self.inv.append(o)
            par, _ = parent_and_siblings(o)
            if par is not None:
                self.inv.append(par)

    # ---------------------------------------------------------------- after
    def after(self, U, call, accepted, exc):
        if self.res.violations:
            return
        self.recheck()
        if self.res.violations:
            return
        clone_tag = ":on-clone" if self.touches_clone(call) else ""
        if clone_tag:
            self.stats["clone_ops"] += 1
        if self.expect is not None:
            want_refused, reason = self.expect
            if want_refused and reason in ("duplicate",):
                self.stats["collide"] += 1
            if want_refused and not accepted:
                if reason == "duplicate":
                    self.stats["refused_dup"] += 1
                elif reason == "illegal":
                    self.stats["refused_illegal"] += 1
            if want_refused and accepted:
                self.res.violate("C10:accepted-although-%s:%s%s" % (reason, call.name, clone_tag),
                                 "args %r" % (_short(call.args),))
                return
            if (not want_refused) and not accepted:
                self.res.violate("C10:refused-without-cause:%s:%s%s" % (call.name, type(exc).__name__,
                                                                        clone_tag),
                                 "args %r; raised %r" % (_short(call.args), exc))
                return
        if call.meta.get("kind") == "clone" and accepted and call.result is not None:
            self.inv.append(call.result)
            self.inv.extend(getattr(call.result, "libraries", []))
            self.inv.extend(getattr(call.result, "definitions", []))
        self.check(self.inv)

    def touches_clone(self, call):
        ids = self.U.cloned_ids
        objs = [call.target] + [a for a in call.args if not isinstance(a, (str, int, list, tuple))]
        for o in objs:
            if o is None:
                continue
            if id(o) in ids:
                return True
            par, _ = parent_and_siblings(o)
            if par is not None and id(par) in ids:
                return True
        return False

    def check(self, parents):
        seen = set()
        for P in parents:
            if id(P) in seen:
                continue
            seen.add(id(P))
            pol = policy(P)
            if pol is None:
                continue
            tag2 = ":in-clone" if id(P) in self.U.cloned_ids else ""
            for tag, children, getter in scopes_of(P):
                # the policy is inherited: every member carries its container's
                for c in children:
                    if policy(c) != pol:
                        self.res.violate("C10:member-policy-differs-from-container:%s" % tag,
                                         "%r in %r" % (policy(c), pol))
                        return
                # uniqueness / legality by scan
                names = [c.data[".NAME"] for c in children
                         if ".NAME" in c.data and c.data[".NAME"] is not None]
                if len(set(names)) != len(names):
                    self.res.violate("C10:duplicate-name-in-scope:%s%s" % (tag, tag2), repr(names))
                    return
                if pol == "EDIF":
                    idents = [c.data["EDIF.identifier"] for c in children
                              if "EDIF.identifier" in c.data]
                    low = [i.lower() for i in idents if isinstance(i, str)]
                    if len(set(low)) != len(low):
                        self.res.violate("C10:duplicate-identifier-in-scope:%s%s" % (tag, tag2),
                                         repr(idents))
                        return
                    for c in children:
                        if "EDIF.identifier" in c.data and policy(c) == "EDIF" \
                                and not legal(c.data["EDIF.identifier"]):
                            self.res.violate("C10:illegal-identifier-stored:%s" % tag,
                                             repr(c.data["EDIF.identifier"]))
                            return
                # lookups vs scan
                for key, values in VALUES.items():
                    for v in values:
                        if key == ".NAME" or pol != "EDIF":
                            scan = [c for c in children if key in c.data and c.data[key] == v]
                        else:
                            scan = [c for c in children if key in c.data
                                    and isinstance(c.data[key], str) and c.data[key].lower() == v.lower()]
                        try:
                            got = list(getter(P, v, key=key))
                        except Exception as e:  # noqa
                            self.res.violate("C10:lookup-raises:%s:%s:%s" % (tag, key, type(e).__name__),
                                             repr(e))
                            return
                        self.stats["lookups"] += 1
                        if scan:
                            self.stats["lookup_hit"] += 1
                        gi, si = sorted(id(x) for x in got), sorted(id(x) for x in scan)
                        ok = gi == si if len(scan) <= 1 else (len(gi) >= 1 and set(gi) <= set(si))
                        if not ok:
                            self.res.violate(
                                "C10:lookup-differs-from-scan:%s:%s:%s%s" % (
                                    key, pol, "miss" if len(gi) < len(si) else "ghost", tag2),
                                "scope %s, value %r: lookup returned %d element(s), scan finds %d" % (
                                    tag, v, len(gi), len(si)))
                            return


def _short(args):
    out = []
    for a in args:
        if isinstance(a, (str, int)) or a is None:
            out.append(a if not isinstance(a, str) or len(a) < 20 else a[:17] + "...")
        elif isinstance(a, (list, tuple)):
            out.append("[%d]" % len(a))
        else:
            out.append(type(a).__name__)
    return out


class C10(Prop):
    ID = "C10"
    RULE = ("histories of naming-relevant public calls (constructors with name/identifier, create/add/"
            "remove/re-add of libraries, definitions, ports, cables, instances; rename; name=None; del "
            "name; set/delete/pop of .NAME and EDIF.identifier; clone of netlist/library/definition "
            "followed by more calls on the clone) over the colliding alphabets names {a,A,b,B,a_1}, "
            "identifiers {a,A,b,B,aB,Ab,AB,b_,&1,c} plus illegal {1a,a-b,'a b','',256 x}, whole history "
            "under DEFAULT or EDIF; oracle = linear-scan scope model: refusal predicted for every naming "
            "edit (refused <=> duplicate by the policy's equality or illegal identifier or structural "
            "precondition), uniqueness/legality of every involved scope after each step and of every scope "
            "at the end, and list(get_X(parent, value, key=K)) == scan for every involved scope, key and "
            "alphabet value. non-trivial = >=1 edit predicted to collide and >=1 lookup that hits; "
            "distinct = distinct case JSON")
    ASSUMPTIONS = ["the default policy may change during a history (elements built under one policy are "
                   "added to containers of the other and converted); refusal is only predicted when "
                   "element and container have the same policy; key .NS is never edited directly",
                   "under a policy that does not constrain identifiers (DEFAULT) several siblings may "
                   "share one; then a lookup must return a non-empty subset of the scan",
                   "identifier lookups under EDIF are case-insensitive as the get_* docstrings document"]
    N = {"quick": 4000, "thorough": 50000}

    def strategy(self, tier):
        cfg = gen_ir.Cfg(max_defs=4, max_children=3, max_width=1, max_libs=2, unnamed=True,
                         top="maybe", alphabet=NAMES, data=False, scale_many=6)
        from hypothesis import strategies as st
        from vf import gen_verilog
        from vf.props.c05 import NAMES as EDIF_NAMES

        base = case_strategy(WEIGHTS, 30 if tier == "quick" else 80, cfg=cfg, names=NAMES, keys=KEYS,
                             own_bias=4, policies=("DEFAULT", "EDIF"))
        ecfg = gen_ir.Cfg(unnamed=False, alphabet=EDIF_NAMES + NAMES, max_defs=4, max_children=3,
                          max_width=2, share=True, top="always", lib_monotone=True, reorder=False,
                          top_modes=["standalone"], data=False)
        reader = st.one_of(
            st.none(), st.none(),
            st.fixed_dictionaries({"kind": st.just("edif"), "design": gen_ir.recipes(ecfg),
                                   "stream": st.lists(st.integers(0, 63), min_size=8, max_size=20)}),
            st.fixed_dictionaries({"kind": st.just("verilog"), "design": gen_verilog.designs(max_mods=3)}))
        return st.tuples(base, reader).map(lambda t: dict(t[0], reader=t[1]))

    def run(self, case):
        res = Result()
        U = build_universe(case)
        rd = case.get("reader")
        if rd:
            # a netlist built by one of the readers joins the universe ("built by hand, by the
            # readers, or by cloning")
            import spydrnet as sdn
            from vf import gen_edif, gen_verilog, model
            from vf.props.c05 import parse_text as parse_edif
            from vf.props.c06 import parse_text as parse_verilog
            try:
                if rd["kind"] == "edif":
                    Bx = gen_ir.build(rd["design"])
                    nlr = parse_edif(gen_edif.render(model.canon(Bx.netlist), rd["stream"])[0])
                else:
                    d = dict(rd["design"])
                    nlr = parse_verilog(gen_verilog.text_of(d)[0]) if gen_verilog.in_domain(d) else None
            except Exception:  # noqa readers are judged by C05/C06
                nlr = None
            sdn.namespace_manager.default = case.get("policy", "DEFAULT")
            if nlr is not None:
                U.absorb(nlr)
                U.refresh_outer()
                res.label("reader-built-netlist-" + rd["kind"])
        mon = NamingMonitor(res, U)
        it = ops.Interpreter(U, [mon])
        mon.check(U.pool["netlist"] + U.pool["library"] + U.pool["definition"])
        if res.violations:
            sig, det = res.violations[0]
            res.violations[0] = (sig.replace("C10:", "C10:after-build:"), det)
            return res
        for op in case["ops"]:
            it.step(op)
            if res.violations:
                break
        if not res.violations:
            mon.check(U.pool["netlist"] + U.pool["library"] + U.pool["definition"])
        s = mon.stats
        if s["collide"] and s["lookup_hit"]:
            res.nontrivial = True
        res.label("policy-" + case.get("policy", "DEFAULT"))
        if s["clone_ops"]:
            res.label("ops-on-clone")
        if s["refused_dup"]:
            res.label("refused-duplicate")
        if s["refused_illegal"]:
            res.label("refused-illegal")
        res.extra["steps"] = len(it.trace)
        res.extra["lookups"] = s["lookups"]
        res.extra["lookup_hits"] = s["lookup_hit"]
        return res


PROP = C10()
