"""C03 - EDIF write-then-read returns the same netlist"""
import glob
import os
import tempfile

from hypothesis import strategies as st

from vf import gen_edif, gen_ir, model
from vf.core import Prop, Result
from vf.props.c05 import NAMES, parse_text, sexp_counts

API_NAMES = ["a", "b", "c", "d", "clk", "data", "q", "sel", "Top", "U1", "n_1", "x y", "a.b", "3d",
             "w/e", "net$1", "Q", "B", "row[0].q", "m[2]x", "Sel", "SEL", "Data", "DATA", "TOP", "_u", "$v", "[1]",
             "L" * 255, "k" + "9" * 253]


def edif_view(nl):
    """name-keyed structure of what C03 lists: libraries, cells, ports (order, direction, width,
    array-ness), instances (name, referenced cell and library, properties), nets (name, width, base
    index, per-bit ordered endpoints by name), top design, netlist name"""
    out = {"name": nl.name, "libs": {}, "top": None}
    for L in nl.libraries:
        ld = out["libs"].setdefault(L.name, {})
        for D in L.definitions:
            pname = {}
            ports = []
            for P in D.ports:
                ports.append({"name": P.name, "dir": P.direction.name, "w": len(P.pins),
                              "arr": bool(P.is_array)})
                for bi, p in enumerate(P.pins):
                    pname[id(p)] = ["p", P.name, bi]
            children = {}
            for I in D.children:
                R = I.reference
                props = gen_edif.thaw(model.freeze(I.data["EDIF.properties"])) \
                    if "EDIF.properties" in I.data else []
                children[I.name] = {"ref": [R.library.name if R.library is not None else None, R.name]
                                    if R is not None else None,
                                    "props": [{k: v for k, v in p.items()} for p in props]}
            cables = {}
            for C in D.cables:
                ws = []
                for w in C.wires:
                    ends = []
                    for p in w.pins:
                        if model.is_outer(p):
                            ip = p.inner_pin
                            ends.append(["i", p.instance.name, ip.port.name,
                                         list(ip.port.pins).index(ip)])
                        else:
                            ends.append(pname.get(id(p), ["?"]))
                    ws.append(ends)
                cables[C.name] = {"w": len(C.wires), "lo": C.lower_index, "arr": bool(C.is_array),
                                  "wires": ws}
            ld[D.name] = {"ports": ports, "cables": cables, "children": children}
    t = nl.top_instance
    if t is not None and t.reference is not None:
        out["top"] = {"name": t.name, "ref": [t.reference.library.name, t.reference.name]}
    return out


def roundtrip(nl, tag="x"):
    import spydrnet as sdn

    with tempfile.TemporaryDirectory() as td:
        path = os.path.join(td, tag + ".edf")
        sdn.compose(nl, path)
        text = open(path).read()
        nl2 = sdn.parse(path)
    return text, nl2


class C03(Prop):
    ID = "C03"
    RULE = ("(a) API-built netlists from recipes restricted to the stated domain (all named, non-empty "
            "bundles, scalar bundles at index 0, acyclic library dependencies) with scrambled library/cell "
            "declaration order, multi-library references, unconnected pins, empty nets, bus widths and "
            "base indices, typed instance properties, built under DEFAULT or EDIF; (b) netlists obtained "
            "by parsing the independent EDIF writer's text (C05), for which also parse(compose(parse f)) "
            "== parse f; (c) bundled .edf examples (<=10 kB quick, all thorough). Oracle: compose does not "
            "raise, parse accepts the file, the name-keyed EDIF view (libraries, cells, ports in order "
            "with direction/width/array-ness, instances with referenced cell+library and properties, nets "
            "with name/width/base index and per-bit ordered endpoints, top design, names) is equal before "
            "and after; construct counts of the written file (own s-expression reader) agree with the "
            "netlist. non-trivial = (>=2 libraries or a bus net with >=2 bits) and >=1 connected instance "
            "pin; distinct = distinct case JSON")
    ASSUMPTIONS = ["port base indices are not part of the comparison (not claimed by the property)",
                   "names contain no wildcard characters * ? (the view is name-keyed)"]
    N = {"quick": 6000, "thorough": 60000}
    CASE_TIMEOUT_S = 120

    def cfg(self, tier, api):
        big = tier == "thorough"
        return gen_ir.Cfg(unnamed=False, alphabet=API_NAMES if api else NAMES, max_defs=7 if big else 5,
                          max_children=4, max_width=4 if big else 3, share=True, top="always",
                          lib_monotone=True, reorder=api, top_modes=["standalone", "definition"] if api
                          else ["standalone"], data_values="edif", undefined_dir=True, late=api,
                          bundle_alphabet=[n for n in (API_NAMES if api else NAMES) if len(n) < 200])

    def strategy(self, tier):
        api = st.fixed_dictionaries({"mode": st.sampled_from(["api-DEFAULT", "api-EDIF"]),
                                     "design": gen_ir.recipes(self.cfg(tier, True))})
        txt = st.fixed_dictionaries({"mode": st.just("parsed"),
                                     "design": gen_ir.recipes(self.cfg(tier, False)),
                                     "stream": st.lists(st.integers(0, 63), min_size=8, max_size=40)})
        # "pre": the netlist may be the product of another feature before it is written
        pre = st.sampled_from(["none", "none", "none", "clone", "uniquify"])
        return st.tuples(st.one_of(api, api, txt), pre).map(lambda t: dict(t[0], pre=t[1]))

    def fixed_cases(self, tier):
        limit = 10000 if tier == "quick" else 10 ** 9
        repo = os.environ.get("VERIF_REPO", "/repo")
        files = sorted(glob.glob(os.path.join(repo, "example_netlists", "EDIF_netlists", "*.edf.zip")))
        stress = [{"mode": m, "design": r, "pre": "none"} for _, r in sorted(gen_ir.stress_recipes().items())
                  for m in ("api-DEFAULT", "api-EDIF")]
        return stress + [{"mode": "example", "example": os.path.basename(f)} for f in files
                         if 200 < os.path.getsize(f) <= limit]

    def run(self, case):
        import spydrnet as sdn

        res = Result()
        mode = case["mode"]
        res.label("mode-" + mode)
        if mode == "example":
            repo = os.environ.get("VERIF_REPO", "/repo")
            try:
                nl = sdn.parse(os.path.join(repo, "example_netlists", "EDIF_netlists", case["example"]))
            except Exception as e:  # noqa (C05 decides whether the reader should accept it)
                res.label("example-rejected-by-reader")
                return res
        elif mode == "parsed":
            B = gen_ir.build(case["design"])
            text, _, _ = gen_edif.render(model.canon(B.netlist), case["stream"])
            try:
                nl = parse_text(text)
            except Exception as e:  # noqa (C05's business)
                res.label("text-rejected-by-reader")
                return res
        else:
            nl = gen_ir.build(case["design"], policy=mode.split("-")[1]).netlist
            sdn.namespace_manager.default = "DEFAULT"
        if case.get("pre") in ("clone", "uniquify") and nl.top_instance is not None:
            try:
                if case["pre"] == "clone":
                    nl = nl.clone()
                else:
                    import spydrnet.uniquify as U
                    if any(D.name is not None and len(D.name) > 230 for L in nl.libraries
                           for D in L.definitions):
                        # name + _sdn_unique_N would pass the identifier length limit: that is the
                        # recorded C17 finding (256-character cut), kept out by construction
                        res.label("uniquify-skipped(names at the length limit)")
                        raise StopIteration
                    U.MOD_NAME_UID = 0
                    U.uniquify(nl)
                res.label("netlist-is-product-of-" + case["pre"])
            except StopIteration:
                pass
            except Exception:  # noqa (C07/C08's business)
                res.label("pre-transform-raised")
                return res
        if not model.library_deps_acyclic(nl):
            res.label("cyclic-library-dependencies(out of domain)")
            return res
        before = edif_view(nl)
        nlibs = len(nl.libraries)
        bus = any(len(C.wires) >= 2 for L in nl.libraries for D in L.definitions for C in D.cables)
        conn = any(op.wire is not None for L in nl.libraries for D in L.definitions
                   for I in D.children for op in I.pins.values())
        res.nontrivial = (nlibs >= 2 or bus) and conn
        try:
            text, nl2 = self.safe_roundtrip(res, nl, "first")
        except StopIteration:
            return res
        after = edif_view(nl2)
        if before != after:
            d = model.diff(before, after)
            res.violate("C03:roundtrip-differs:%s" % classify(d), "; ".join(d))
            return res
        counts = sexp_counts(text)
        want = {"cell": sum(len(L.definitions) for L in nl.libraries),
                "instance": sum(len(D.children) for L in nl.libraries for D in L.definitions),
                "port": sum(len(D.ports) for L in nl.libraries for D in L.definitions),
                "net": sum(len(C.wires) for L in nl.libraries for D in L.definitions for C in D.cables),
                "portref": sum(len(w.pins) for L in nl.libraries for D in L.definitions
                               for C in D.cables for w in C.wires)}
        for k, v in want.items():
            if counts.get(k, 0) != v:
                res.violate("C03:written-file-count:%s" % k, "file has %d, netlist %d" % (
                    counts.get(k, 0), v))
        for code, detail in model.wf(nl2, strict=True):
            res.violate("C03:reread:" + code, detail)
        if res.violations:
            return res
        # second round: parse(compose(parse f)) == parse f
        try:
            _, nl3 = self.safe_roundtrip(res, nl2, "second")
        except StopIteration:
            return res
        third = edif_view(nl3)
        if third != after:
            d = model.diff(after, third)
            res.violate("C03:second-roundtrip-differs:%s" % classify(d), "; ".join(d))
        return res

    def safe_roundtrip(self, res, nl, which):
        import spydrnet as sdn

        with tempfile.TemporaryDirectory() as td:
            path = os.path.join(td, "x.edf")
            try:
                sdn.compose(nl, path)
            except Exception as e:  # noqa
                res.violate("C03:compose-raises:%s:%s" % (which, type(e).__name__), repr(e)[:500])
                raise StopIteration
            text = open(path).read()
            try:
                nl2 = sdn.parse(path)
            except Exception as e:  # noqa
                sdn.namespace_manager.default = "DEFAULT"
                res.violate("C03:reader-rejects-written-file:%s:%s" % (which, type(e).__name__),
                            "%r" % (e,))
                raise StopIteration
        return text, nl2


def classify(d):
    s = d[0] if d else ""
    for key in ("top", "wires", "props", "ports", "cables", "children", ".lo", "name"):
        if key in s:
            return key.strip(".")
    return "other"


PROP = C03()
