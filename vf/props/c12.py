"""C12 - cross-hierarchy tracing returns exactly the electrically connected net"""
from hypothesis import strategies as st

from vf import gen_ir, model
from vf.core import Prop, Result
from vf.hmodel import HModel, seq_of, key


def pre_transform(nl, kind, res):
    """the netlist the queries run on may itself be the product of another feature"""
    import spydrnet.uniquify as U

    try:
        if kind == "clone":
            nl = nl.clone()
        elif kind == "uniquify":
            U.MOD_NAME_UID = 0
            U.uniquify(nl)
        elif kind == "clone+uniquify":
            nl = nl.clone()
            U.MOD_NAME_UID = 0
            U.uniquify(nl)
        elif kind == "flatten":
            import spydrnet.flatten as F
            # flatten's domain (C09): named instances and cables
            k = 0
            for L in nl.libraries:
                for D in L.definitions:
                    for x in list(D.children) + list(D.cables):
                        if x.name is None:
                            k += 1
                            x.name = "auto%d" % k
            if any("/" in x.name for L in nl.libraries for D in L.definitions
                   for x in list(D.children) + list(D.cables)):
                return nl
            U.MOD_NAME_UID = 0
            F.mod_name_uid = 0
            F.unique_number = 0
            U.uniquify(nl)
            F.flatten(nl)
        else:
            return nl
        res.label("netlist-is-product-of-" + kind)
    except Exception:  # noqa (C07/C08/C09 decide the transforms)
        res.label("pre-transform-raised")
        return None   # possibly half transformed: nothing to query
    return nl


class C12(Prop):
    ID = "C12"
    RULE = ("design recipes (nets spanning several levels, nets touching only instance pins, only ports "
            "or nothing, shared definitions reached by several paths, pass-through cells, unconnected "
            "sides, buses) built through the API; every hierarchical wire, cable, pin and port (capped "
            "per case) is used as the start of get_hwires/get_hcables with selection ALL, and every "
            "hierarchical pin with INSIDE/OUTSIDE/BOTH, and every hierarchical wire for get_hpins; "
            "oracle = independent union-find elaboration over (path, wire) joined across instance port "
            "boundaries; optionally further connect/disconnect edits and a second full tracing round while all "
            "references of the first round are kept alive. non-trivial = some net spans >=2 hierarchical wires (crosses a port boundary); "
            "distinct = distinct recipe JSON")
    ASSUMPTIONS = ["the top instance is not itself a child (its outer pins are unconnected)",
                   "BOTH is taken as the union of INSIDE and OUTSIDE"]
    N = {"quick": 4800, "thorough": 60000}
    CASE_TIMEOUT_S = 60

    def cfg(self, tier):
        big = tier == "thorough"
        return gen_ir.Cfg(unnamed=True, max_defs=7 if big else 6, max_children=4 if big else 3,
                          max_width=3 if big else 2, share=True, late=True, dense=True, top="always",
                          top_modes=["standalone", "definition", "set_top_instance"], data=False,
                          noref_children=True)

    def strategy(self, tier):
        edit = st.fixed_dictionaries({"k": st.sampled_from(["disc1", "discN", "conn", "conn"]),
                                      "i": st.integers(0, 60), "j": st.integers(0, 60),
                                      "proxy": st.booleans()})
        return st.fixed_dictionaries({"design": gen_ir.recipes(self.cfg(tier)),
                                      "sample": st.integers(0, 1000),
                                      "edits": st.one_of(st.just([]), st.lists(edit, max_size=3)),
                                      "edits2": st.one_of(st.just([]), st.lists(edit, min_size=1, max_size=2)),
                                      "pre": st.sampled_from(["none", "none", "none", "clone", "uniquify",
                                                              "clone+uniquify", "flatten"])})

    def fixed_cases(self, tier):
        stress = [{"design": r, "edits": [], "sample": 0, "pre": "none"} for k, r in sorted(gen_ir.stress_recipes().items())
                  if k.startswith("deep")]
        return stress + gen_ir.example_cases(tier, quick_limit=4000, thorough_limit=9000)

    def run(self, case):
        import spydrnet as sdn

        res = Result()
        if "example" in case:
            nl = gen_ir.load_example(case)
            res.label("bundled-example")
            if nl is None or nl.top_instance is None or model.wf(nl, strict=True):
                res.label("example-not-usable")
                return res
            case = dict(case, sample=0)
        else:
            nl = gen_ir.build(case["design"]).netlist
            pre = model.wf(nl, strict=True)
            if pre:
                raise RuntimeError("generator produced ill-formed netlist: %r" % pre[:3])
            if nl.top_instance is not None and nl.top_instance.reference is not None:
                nl = pre_transform(nl, case.get("pre", "none"), res)
                if nl is None:
                    return res
        # every hierarchical reference handed out stays alive until the case ends, so that anything the
        # library remembers per reference between queries is still there when the netlist has changed
        self._alive = []
        self.trace(res, nl, case, case.get("edits") or [], "")
        if case.get("edits2") and not res.violations:
            res.label("traced-again-after-further-edits")
            self.trace(res, nl, case, case["edits2"], ":after-further-edits")
        self._alive = []
        return res

    def trace(self, res, nl, case, edits, tag2):
        import spydrnet as sdn

        # connections made and cut through the public API (registered pins or (instance, inner pin)
        # proxies) before tracing: the property speaks of all netlists, not only freshly built ones
        for e in edits:
            ops_ = [(I, op) for L in nl.libraries for D in L.definitions for I in D.children
                    for op in I.pins.values()]
            if not ops_:
                break
            arg = lambda I, op: (sdn.OuterPin.from_instance_and_inner_pin(I, op.inner_pin)  # noqa
                                 if e["proxy"] else op)
            try:
                if e["k"] in ("disc1", "discN"):
                    conn = [(I, op) for I, op in ops_ if op.wire is not None]
                    if not conn:
                        continue
                    I, op = conn[e["i"] % len(conn)]
                    w = op.wire
                    if e["k"] == "disc1":
                        w.disconnect_pin(arg(I, op))
                    else:
                        w.disconnect_pins_from([arg(I, op)])
                else:
                    free = [(I, op) for I, op in ops_ if op.wire is None and I.parent is not None]
                    if not free:
                        continue
                    I, op = free[e["i"] % len(free)]
                    ws = [w for C in I.parent.cables for w in C.wires]
                    if not ws:
                        continue
                    ws[e["j"] % len(ws)].connect_pin(arg(I, op))
                res.label("edited-before-tracing")
            except Exception as ex:  # noqa (whether an edit may be refused is C01/C14's business)
                res.label("edit-refused")
        M = HModel(nl)
        if len(M.paths) > 300:
            res.label("paths>300")
            return res
        M.connectivity()
        if any(len(g) >= 2 for g in M.groups.values()) and not tag2:
            res.nontrivial = True
        if any(len({n[0] for n in g}) >= 3 for g in M.groups.values()):
            res.label("net-on>=3-hierarchical-instances")
        ALL, INSIDE, OUTSIDE, BOTH = sdn.ALL, sdn.INSIDE, sdn.OUTSIDE, sdn.BOTH
        s = case.get("sample", 0)

        def href(seq):
            return sdn.HRef.from_sequence(seq)

        def wires_expected(nodes):
            return {key(M.wire_nodes[n]) for n in nodes}

        def check(tag, fn, start_seq, selection, want_keys):
            tag = tag + tag2
            try:
                start = href(start_seq)
                got = list(fn(start, selection=selection))
                self._alive.append(start)
                self._alive.extend(got)
            except Exception as e:  # noqa
                res.violate("C12:%s:raises:%s" % (tag, type(e).__name__), repr(e))
                return
            gk = [key(seq_of(h)) for h in got]
            if len(set(gk)) != len(gk):
                res.violate("C12:%s:duplicate" % tag)
            gs = set(gk)
            if want_keys - gs:
                res.violate("C12:%s:missing" % tag, "%d of %d expected missing (start %s)" % (
                    len(want_keys - gs), len(want_keys), M.name_of(start_seq)))
            if gs - want_keys:
                res.violate("C12:%s:extra" % tag, "%d unexpected of %d returned (start %s)" % (
                    len(gs - want_keys), len(gs), M.name_of(start_seq)))

        def pick(lst, cap):
            if len(lst) <= cap:
                return lst
            step = max(1, len(lst) // cap)
            off = s % step
            return lst[off::step][:cap]

        hwires = M.hwires(True)
        hcables = M.hcables(True)
        hpins = M.hpins(True)
        hports = M.hports(True)
        only_inst = 0
        for seq in pick(hwires, 40):
            p, C, w = seq[:-2], seq[-2], seq[-1]
            net = M.net_of(p, w)
            want = wires_expected(net)
            pins = list(w.pins)
            tag_extra = ""
            if pins and all(model.is_outer(x) for x in pins):
                only_inst += 1
                tag_extra = ":touching-only-instance-pins"
            check("get_hwires:hwire:ALL" + tag_extra, sdn.get_hwires, seq, ALL, want)
            check("get_hcables:hwire:ALL" + tag_extra, sdn.get_hcables, seq, ALL, {k[:-1] for k in want})
            # pins of the wire
            wantp = set()
            here = p[-1].reference
            for x in pins:
                # only pins that exist in this occurrence: of a child of this definition, or of one of
                # its ports (a pin a transformation forgot on the wire is not "attached" to anything)
                if model.is_outer(x):
                    I, ip = x.instance, x.inner_pin
                    if I is not None and ip is not None and I.parent is here:
                        wantp.add(key(p + (I, ip.port, ip)))
                elif x.port is not None and x.port.definition is here:
                    wantp.add(key(p + (x.port, x)))
            try:
                hp = list(sdn.get_hpins(href(seq)))
                self._alive.extend(hp)
                got = [key(seq_of(h)) for h in hp]
            except Exception as e:  # noqa
                res.violate("C12:get_hpins:hwire%s:raises:%s" % (tag2, type(e).__name__), repr(e))
                got = None
            if got is not None and (set(got) != wantp or len(got) != len(set(got))):
                res.violate(("C12:get_hpins:hwire%s:" % tag2) + "%s" % (
                    "missing" if wantp - set(got) else ("extra" if set(got) - wantp else "duplicate")),
                    "%d returned, %d expected" % (len(got), len(wantp)))
        if only_inst:
            res.label("start-touching-only-instance-pins")
        for seq in pick(hcables, 15):
            p, C = seq[:-1], seq[-1]
            nodes = set()
            for w in C.wires:
                nodes |= M.net_of(p, w)
            want = wires_expected(nodes)
            check("get_hwires:hcable:ALL", sdn.get_hwires, seq, ALL, want)
            check("get_hcables:hcable:ALL", sdn.get_hcables, seq, ALL, {k[:-1] for k in want})

        def sides(seq):
            p, P, pin = seq[:-2], seq[-2], seq[-1]
            inside, outside = set(), set()
            iw = pin.wire
            if iw is not None:
                inside = {(key(p), id(iw))}
            if len(p) >= 2 and pin in p[-1].pins:
                ow = p[-1].pins[pin].wire
                if ow is not None:
                    outside = {(key(p[:-1]), id(ow))}
            return inside, outside

        for seq in pick(hpins, 40):
            inside, outside = sides(seq)
            nodes = set()
            for n in inside | outside:
                nodes |= M.groups[M.uf.find(n)]
            check("get_hwires:hpin:ALL", sdn.get_hwires, seq, ALL, wires_expected(nodes))
            check("get_hwires:hpin:INSIDE", sdn.get_hwires, seq, INSIDE, wires_expected(inside))
            check("get_hwires:hpin:OUTSIDE", sdn.get_hwires, seq, OUTSIDE, wires_expected(outside))
            check("get_hwires:hpin:BOTH", sdn.get_hwires, seq, BOTH, wires_expected(inside | outside))
            check("get_hcables:hpin:ALL", sdn.get_hcables, seq, ALL,
                  {k[:-1] for k in wires_expected(nodes)})
            check("get_hcables:hpin:INSIDE", sdn.get_hcables, seq, INSIDE,
                  {k[:-1] for k in wires_expected(inside)})
            check("get_hcables:hpin:OUTSIDE", sdn.get_hcables, seq, OUTSIDE,
                  {k[:-1] for k in wires_expected(outside)})
        for seq in pick(hports, 15):
            p, P = seq[:-1], seq[-1]
            nodes = set()
            for pin in P.pins:
                i, o = sides(seq + (pin,))
                for n in i | o:
                    nodes |= M.groups[M.uf.find(n)]
            check("get_hwires:hport:ALL", sdn.get_hwires, seq, ALL, wires_expected(nodes))
            check("get_hcables:hport:ALL", sdn.get_hcables, seq, ALL,
                  {k[:-1] for k in wires_expected(nodes)})
        res.extra["starts"] = len(pick(hwires, 40)) + len(pick(hcables, 15)) + len(pick(hpins, 40)) + \
            len(pick(hports, 15))
        return res


PROP = C12()
