"""C08 - uniquify makes every non-leaf instance below the top unique without changing the design"""
from hypothesis import strategies as st

from vf import gen_ir, model
from vf.core import Prop, Result

ALPHA = ["a", "b", "c", "d", "e", "f", "g", "h", "a_sdn_unique_0", "a_sdn_unique_1",
         "b_sdn_unique_0", "m", "n", "q"]


class C08(Prop):
    ID = "C08"
    RULE = ("design recipes drawn by construction (<=3 libraries, <=7 definitions, shared definitions at "
            "several depths, cross-library references, pass-through cells, buses, unconnected pins, "
            "partly unnamed elements, names already ending in _sdn_unique_N), built through the public "
            "API, then spydrnet.uniquify.uniquify; oracle = independent elaboration before/after "
            "(occurrence tree, leaf types, endpoint partition), uniqueness of every non-leaf instance "
            "below the top, wf, naming/placement of new definitions, idempotence of a second call. "
            "non-trivial = at least one definition was cloned by the call (a non-leaf definition was "
            "shared below the top); distinct = distinct recipe JSON")
    ASSUMPTIONS = ["the top instance itself is not required to be unique (only instances below it)",
                   "uniquify's module-level name counter is reset before each case, as in a fresh process"]
    N = {"quick": 12000, "thorough": 100000}

    def cfg(self, tier):
        big = tier == "thorough"
        return gen_ir.Cfg(alphabet=ALPHA, unnamed=True, max_defs=9 if big else 7,
                          max_children=6 if big else 4, max_width=4 if big else 3,
                          share=True, late=True, top="always", top_modes=["standalone", "definition"])

    def strategy(self, tier):
        # with_ids: definitions also carry an EDIF.identifier (as after an EDIF read or export)
        from vf import gen_verilog
        from vf.props.c05 import NAMES

        api = st.tuples(gen_ir.recipes(self.cfg(tier)), st.booleans(), st.booleans()).map(
            lambda t: dict(t[0], with_ids=t[1], via_clone=t[2]))
        # (no names at the identifier length limit: name + _sdn_unique_N would pass it, the
        # length-limit finding recorded under C17)
        ecfg = gen_ir.Cfg(unnamed=False, alphabet=[n for n in NAMES if len(n) < 200], max_defs=6,
                          max_children=4, max_width=3,
                          share=True, top="always", lib_monotone=True, reorder=False,
                          top_modes=["standalone"], data_values="edif")
        # netlists as the readers leave them (identifiers, EDIF policy, Verilog assignment library)
        rd = st.one_of(
            st.fixed_dictionaries({"kind": st.just("edif"), "design": gen_ir.recipes(ecfg),
                                   "stream": st.lists(st.integers(0, 63), min_size=8, max_size=20)}),
            st.fixed_dictionaries({"kind": st.just("verilog"), "design": gen_verilog.designs()}))
        return st.one_of(api, api, api, st.fixed_dictionaries({"reader": rd, "via_clone": st.booleans()}))

    def fixed_cases(self, tier):
        stress = [dict(r, with_ids=False, via_clone=False) for _, r in sorted(gen_ir.stress_recipes().items())]
        return stress + gen_ir.example_cases(tier)

    def run(self, case):
        import spydrnet.uniquify as U

        res = Result()
        U.MOD_NAME_UID = 0
        if "example" in case:
            nl = gen_ir.load_example(case)
            res.label("bundled-example")
            if nl is None or nl.top_instance is None or model.wf(nl, strict=True):
                res.label("example-not-usable")
                return res
        elif "reader" in case:
            from vf.props.c07 import C07
            nl = C07.read_source(res, case["reader"])
            if nl is None or nl.top_instance is None:
                return res
            res.label("reader-built-" + case["reader"]["kind"])
        else:
            B = gen_ir.build(case)
            nl = B.netlist
            pre = model.wf(nl, strict=True)
            if pre:
                raise RuntimeError("generator produced ill-formed netlist: %r" % pre[:3])
            if case.get("with_ids"):
                res.label("definitions-with-identifiers")
                for L in nl.libraries:
                    for D in L.definitions:
                        if D.name is not None:
                            try:
                                D["EDIF.identifier"] = D.name
                            except ValueError:
                                pass
        if case.get("via_clone"):
            try:
                nl = nl.clone()
                res.label("on-a-clone")
            except Exception:  # noqa (C07's business)
                pass
        before = model.elab(nl)
        defs_before = {id(D): D for L in nl.libraries for D in L.definitions}
        names_before = {id(D): D.name for D in defs_before.values()}
        lib_of_before = {id(D): D.library for D in defs_before.values()}
        try:
            U.uniquify(nl)
        except Exception as e:  # noqa
            res.violate("C08:uniquify-raises:%s" % type(e).__name__, repr(e))
            res.nontrivial = True
            return res
        defs_after = {id(D): D for L in nl.libraries for D in L.definitions}
        new = [D for i, D in defs_after.items() if i not in defs_before]
        if new:
            res.nontrivial = True
            res.label("cloned")
        if len(new) >= 3:
            res.label("cloned>=3")
        for i in defs_before:
            if i not in defs_after:
                res.violate("C08:definition-disappeared", names_before[i])
        # 1. uniqueness below the top
        top = nl.top_instance

        def walk(I, depth):
            for ch in I.reference.children:
                R = ch.reference
                if R is None:
                    continue
                if model.is_leaf_def(R):
                    continue
                refs = list(R.references)
                if len(refs) != 1 or refs[0] is not ch:
                    res.violate("C08:non-leaf-instance-not-unique",
                                "instance %r of %r at depth %d has %d references" % (
                                    ch.name, R.name, depth, len(refs)))
                if depth >= 2 and id(R) not in defs_before:
                    res.label("clone-at-depth>=2")
                walk(ch, depth + 1)

        walk(top, 1)
        # 2. elaboration unchanged
        after = model.elab(nl)
        if set(before["occ"]) != set(after["occ"]):
            res.violate("C08:occurrence-tree-changed", "%r" % (
                sorted(set(before["occ"]) ^ set(after["occ"]))[:4],))
        else:
            for path, (dname, leaf, data) in before["occ"].items():
                d2, leaf2, data2 = after["occ"][path]
                if leaf != leaf2 or data != data2 or (leaf and dname != d2):
                    res.violate("C08:occurrence-changed", "%r: %r -> %r" % (
                        path, (dname, leaf, data), (d2, leaf2, data2)))
                    break
        if before["nets"] != after["nets"]:
            res.violate("C08:connectivity-changed", _netdiff(before["nets"], after["nets"]))
        # 3. wf
        for code, detail in model.wf(nl, strict=True):
            res.violate("C08:" + code, detail)
        # 4. new definitions: right library, fresh unique name
        for D in new:
            L = D.library
            if L is None or L.netlist is not nl:
                res.violate("C08:new-definition-not-in-netlist", repr(D.name))
                continue
            if D.name is not None:
                same = [x for x in L.definitions if x.name == D.name]
                if len(same) != 1:
                    res.violate("C08:new-definition-name-not-unique", repr(D.name))
                if "_sdn_unique_" not in D.name:
                    res.violate("C08:new-definition-name-not-fresh", repr(D.name))
                else:
                    if D.name in names_before.values() and any(
                            names_before[i] == D.name and lib_of_before[i] is L for i in names_before):
                        res.violate("C08:new-definition-reuses-existing-name", repr(D.name))
                    # original: strip suffixes until a pre-existing definition name of this library
                    base = D.name
                    found = False
                    while "_sdn_unique_" in base:
                        base = base[:base.rindex("_sdn_unique_")]
                        if any(names_before[i] == base and lib_of_before[i] is L
                               for i in names_before):
                            found = True
                            break
                    if not found:
                        res.violate("C08:new-definition-not-in-library-of-original", repr(D.name))
        # 5. idempotence
        snap = model.ident(nl)
        n_defs = len(defs_after)
        try:
            U.uniquify(nl)
        except Exception as e:  # noqa
            res.violate("C08:second-uniquify-raises:%s" % type(e).__name__, repr(e))
            return res
        if sum(len(L.definitions) for L in nl.libraries) != n_defs:
            res.violate("C08:second-uniquify-adds-definitions")
        elif model.ident(nl) != snap:
            res.violate("C08:second-uniquify-changes-netlist",
                        "; ".join(model.diff(snap, model.ident(nl))))
        if res.violations:
            return res
        # 6. sharing introduced after a uniquify (one more instance of a non-leaf definition that sits
        # below the top) is removed by the next uniquify just the same
        topdef = top.reference
        below = []

        def collect(D, seen):
            for ch in D.children:
                R = ch.reference
                if R is not None and not model.is_leaf_def(R) and id(R) not in seen:
                    seen.add(id(R))
                    below.append(R)
                    collect(R, seen)
        collect(topdef, set())
        deep = [D for D in below if any(r.parent is not topdef for r in D.references)] or below
        if deep:
            X = deep[len(below) % len(deep)]
            sub = _subtree(X)
            hosts = [topdef] + [D for D in below if D not in sub]
            Y = hosts[len(deep) % len(hosts)]
            try:
                Y.create_child(name="again_u", reference=X)
            except Exception:  # noqa (name taken: skip)
                return res
            res.label("shared-again-after-uniquify")
            before2 = model.elab(nl)
            try:
                U.uniquify(nl)
            except Exception as e:  # noqa
                res.violate("C08:uniquify-after-edit-raises:%s" % type(e).__name__, repr(e))
                return res
            walk(top, 1)
            if res.violations:
                sig, det = res.violations[0]
                res.violations[0] = (sig.replace("C08:", "C08:after-edit:"), det)
                return res
            after2 = model.elab(nl)
            if set(before2["occ"]) != set(after2["occ"]) or before2["nets"] != after2["nets"]:
                res.violate("C08:after-edit:design-changed", "")
            for code, detail in model.wf(nl, strict=True):
                res.violate("C08:after-edit:" + code, detail)
        return res


def _subtree(D):
    """definitions reachable from D (to keep the added instance from closing a cycle)"""
    out, stack = {D}, [D]
    while stack:
        for ch in stack.pop().children:
            R = ch.reference
            if R is not None and R not in out:
                out.add(R)
                stack.append(R)
    return out


def _netdiff(a, b):
    return "only before: %r ; only after: %r" % (
        [sorted(x) for x in list(a - b)[:2]], [sorted(x) for x in list(b - a)[:2]])


PROP = C08()
