"""C01 - containment and pin-wire links stay mutually consistent under any edit history"""
from hypothesis import strategies as st

from vf import gen_ir, ops
from vf.core import Prop, Result

WEIGHTS = {
    "def.remove_ports_from": 3, "def.remove_cables_from": 3, "def.remove_children_from": 3,
    "port.remove_pins_from": 6, "cable.remove_wires_from": 6, "lib.remove_definitions_from": 2,
    "cable.create_wires": 3, "port.create_pins": 3,
    "nl.remove_libraries_from": 2,
    "def.ports=": 2, "def.cables=": 2, "def.children=": 2, "port.pins=": 2, "cable.wires=": 2,
    "wire.pins=": 3, "wire.connect_pin": 8, "wire.disconnect_pin": 5, "wire.disconnect_pins_from": 4,
    "proxy.new": 3, "port.create_pin": 2, "port.remove_pin": 3, "def.remove_port": 3,
    "def.remove_child": 2, "inst.reference=": 3, "cable.remove_wire": 2, "def.add_port": 2,
    "def.add_child": 2, "def.add_cable": 2, "port.add_pin": 2, "cable.add_wire": 2,
    "bundle.is_downto=": 0, "bundle.lower_index=": 0, "port.direction=": 0,
    "el.clone_container": 3, "el.clone": 1, "ns.default=": 1, "el.set": 3,
}


def check_links(U):
    """returns list of (code, detail); whole pool, identity based"""
    bad = []
    P = U.pool

    def contain(parents, attr, back, what):
        for C in parents:
            lst = list(getattr(C, attr))
            ids = [id(x) for x in lst]
            if len(set(ids)) != len(ids):
                bad.append(("dup-in-%s" % attr, what))
            for x in lst:
                if getattr(x, back) is not C:
                    bad.append(("%s-member-names-other-parent" % attr, what))
                    break

    contain(P["netlist"], "libraries", "netlist", "netlist")
    contain(P["library"], "definitions", "library", "library")
    contain(P["definition"], "ports", "definition", "definition")
    contain(P["definition"], "cables", "definition", "definition")
    contain(P["definition"], "children", "parent", "definition")
    contain(P["port"], "pins", "port", "port")
    contain(P["cable"], "wires", "cable", "cable")

    def back(children, backattr, attr):
        for x in children:
            par = getattr(x, backattr)
            if par is not None:
                n = sum(1 for y in getattr(par, attr) if y is x)
                if n != 1:
                    bad.append(("%s-names-parent-listing-it-%d-times" % (backattr, n), attr))

    back(P["library"], "netlist", "libraries")
    back(P["definition"], "library", "definitions")
    back(P["port"], "definition", "ports")
    back(P["cable"], "definition", "cables")
    back(P["instance"], "parent", "children")
    back(P["pin"], "port", "pins")
    back(P["wire"], "cable", "wires")

    wires = {id(w): w for w in P["wire"]}
    pins = {id(p): p for p in P["pin"]}
    for I in P["instance"]:
        for op in I.pins.values():
            pins[id(op)] = op
    pins.update(U.outer_seen)
    for p in list(pins.values()):
        w = p.wire
        if w is not None and id(w) not in wires:
            wires[id(w)] = w
    for w in wires.values():
        lst = list(w.pins)
        ids = [id(x) for x in lst]
        if len(set(ids)) != len(ids):
            bad.append(("wire-lists-pin-twice", ""))
        for x in lst:
            if x.wire is not w:
                bad.append(("wire-lists-pin-reporting-other-wire", type(x).__name__))
                break
    for p in pins.values():
        w = p.wire
        if w is not None:
            n = sum(1 for y in w.pins if y is p)
            if n != 1:
                bad.append(("pin-reports-wire-listing-it-%d-times" % n, type(p).__name__))
    # a proxy built from (instance, inner pin) stands for the registered outer pin in every call that
    # takes pins: it must compare equal to it and - equal objects - hash like it, at every prefix
    import spydrnet as sdn
    for I in P["instance"]:
        for ip, op in list(I.pins.items()):
            proxy = sdn.OuterPin.from_instance_and_inner_pin(I, ip)
            if not (proxy == op):
                bad.append(("proxy-differs-from-registered-outer-pin", ""))
                break
            if hash(proxy) != hash(op):
                bad.append(("equal-outer-pins-hash-differently", ""))
                break
    return bad


class LinkMonitor:
    def __init__(self, res, prefix):
        self.res = res
        self.prefix = prefix
        self.stats = {"accepted_remove_or_reorder": 0, "accepted_connect": 0, "refused": 0,
                      "proxy_conn": 0, "bulk_after_reorder": 0}
        self.reordered = set()
        self.broken = False

    def before(self, U, call):
        pass

    def after(self, U, call, accepted, exc):
        if self.broken:
            return
        kind = call.meta.get("kind")
        if not accepted:
            self.stats["refused"] += 1
        if kind == "reorder":
            before, value = call.meta["before"], call.meta["value"]
            attr, C = call.meta["container"]
            now = list(getattr(C, attr))
            if accepted:
                self.stats["accepted_remove_or_reorder"] += 1
                self.reordered.add(id(C))
                if sorted(id(x) for x in now) != sorted(id(x) for x in before):
                    self.fail(call, "reorder-not-a-permutation",
                              "%s: %d -> %d members, identity multiset changed" % (
                                  call.name, len(before), len(now)))
            else:
                if [id(x) for x in now] != [id(x) for x in before]:
                    self.fail(call, "refused-reorder-changed-list", call.name)
        elif kind == "remove" and accepted:
            self.stats["accepted_remove_or_reorder"] += 1
            if "_from" in call.name and id(call.meta["container"][1]) in self.reordered:
                self.stats["bulk_after_reorder"] += 1
            for x in call.meta["elements"]:
                back = {"libraries": "netlist", "definitions": "library", "ports": "definition",
                        "cables": "definition", "children": "parent", "pins": "port",
                        "wires": "cable"}[call.meta["container"][0]]
                if getattr(x, back) is not None:
                    self.fail(call, "removed-element-still-reports-parent", call.name)
        elif kind == "connect" and accepted:
            self.stats["accepted_connect"] += 1
        if kind in ("connect", "disconnect") and accepted:
            ps = [call.meta.get("pin")] if kind == "connect" else call.meta.get("pins", [])
            for p in ps:
                if p is not None and hasattr(p, "inner_pin") and p.instance is not None \
                        and p.inner_pin is not None and p.instance.pins.get(p.inner_pin) is not p:
                    self.stats["proxy_conn"] += 1
        for code, detail in check_links(U):
            self.fail(call, code, detail)
            break

    def fail(self, call, code, detail):
        self.broken = True
        self.res.violate("%s:%s:after:%s" % (self.prefix, code, call.name), detail)


def build_universe(case):
    import spydrnet as sdn

    sdn.namespace_manager.default = case.get("policy", "DEFAULT")
    U = ops.Universe()
    for key in ("design", "design2"):
        rec = case.get(key)
        if rec:
            B = gen_ir.build(rec)
            U.absorb(B.netlist)
            U.keep.append(B)
    if not U.pool["netlist"]:
        U.absorb(sdn.Netlist(name="n0"))
    U.refresh_outer()
    return U


def case_strategy(weights, max_len, cfg=None, names=ops.NAMES, keys=ops.KEYS, own_bias=3,
                  policies=("DEFAULT", "DEFAULT", "EDIF"), odd_positions=False):
    cfg = cfg or gen_ir.Cfg(max_defs=4, max_children=3, max_width=4, max_libs=2, unnamed=True,
                            top="maybe", top_modes=["standalone", "definition", "child"],
                            noref_children=True, alphabet=["a", "A", "b", "c", "d", "e", ""])
    small = gen_ir.Cfg(max_defs=2, max_children=2, max_width=2, max_libs=1, unnamed=True,
                       top="maybe", alphabet=["a", "b", "c", "q"])
    return st.fixed_dictionaries({
        "policy": st.sampled_from(list(policies)),
        "design": st.one_of(st.none(), gen_ir.recipes(cfg), gen_ir.recipes(cfg), gen_ir.recipes(cfg),
                            gen_ir.recipes(cfg)),
        "design2": st.one_of(st.none(), st.none(), gen_ir.recipes(small)),
        "ops": ops.histories(weights, max_len, names, keys, own_bias, odd_positions=odd_positions),
    })


class C01(Prop):
    ID = "C01"
    RULE = ("histories of <=40 (quick) / <=120 (thorough) public mutator calls drawn from the complete "
            "editing alphabet (create/add/remove/bulk remove/reorder of libraries, definitions, ports, "
            "pins, cables, wires, children; connect/disconnect incl. proxy outer pins; reference changes; "
            "top instance; renames; data edits), arguments chosen from the pool of every object ever "
            "created (owned, removed, foreign) so that valid and invalid calls both occur, applied to "
            "1-2 generated netlists under the DEFAULT or EDIF policy; after every step the containment "
            "and pin-wire invariants are checked over the whole pool by identity and every reorder is "
            "checked to be a permutation (accepted) or a no-op (refused). non-trivial = history with >=1 "
            "accepted removal or reorder, >=1 accepted connect and >=1 refused call; distinct = distinct "
            "case JSON")
    ASSUMPTIONS = ["a proxy OuterPin (lookup key built by from_instance_and_inner_pin) is not itself "
                   "a pin of the netlist: its own .wire field is not part of the invariant",
                   "arguments are always of the documented type"]
    N = {"quick": 6400, "thorough": 60000}

    def strategy(self, tier):
        return case_strategy(WEIGHTS, 40 if tier == "quick" else 120, odd_positions=True)

    def fixed_cases(self, tier):
        from vf import matrix
        return matrix.bulk_cases()

    def run_bulk(self, res, params):
        """one bulk removal of the enumerated family (vf/matrix.py): consistent links whatever happens"""
        from vf import matrix
        import spydrnet as sdn

        sdn.namespace_manager.default = "DEFAULT"
        sc = matrix.build_bulk(params)
        U = ops.Universe()
        U.absorb(sc["netlist"])
        for x in sc["keep"]:
            U.absorb(x)
        U.refresh_outer()
        pre = check_links(U)
        if pre:
            raise RuntimeError("bulk scene inconsistent: %r" % pre[:3])
        try:
            sc["call"]()
            outcome = "accepted"
        except Exception as e:  # noqa
            outcome = "refused:" + type(e).__name__
        U.refresh_outer()
        res.label("bulk-family", "bulk-" + outcome.split(":")[0])
        res.nontrivial = True
        for code, detail in check_links(U):
            res.violate("C01:%s:after:bulk-%s:%s" % (code, sc["kind"], outcome.split(":")[0]),
                        "family %r (%s): %s" % (params, outcome, detail))
            break
        return res

    def run(self, case):
        res = Result()
        if "bulk" in case:
            return self.run_bulk(res, case["bulk"])
        U = build_universe(case)
        mon = LinkMonitor(res, "C01")
        pre = check_links(U)
        if pre:
            raise RuntimeError("initial universe inconsistent: %r" % pre[:3])
        it = ops.Interpreter(U, [mon])
        for op in case["ops"]:
            it.step(op)
            if mon.broken:
                break
        s = mon.stats
        if s["accepted_remove_or_reorder"] and s["accepted_connect"] and s["refused"]:
            res.nontrivial = True
        if s["proxy_conn"]:
            res.label("proxy-connect-or-disconnect")
        if s["bulk_after_reorder"]:
            res.label("bulk-removal-after-reorder")
        if case.get("policy") == "EDIF":
            res.label("policy-EDIF")
        if len(U.pool["netlist"]) > 1:
            res.label("several-netlists")
        n = len(it.trace)
        refused = sum(1 for t in it.trace if t[1] not in ("ok", "skipped"))
        res.extra["steps"] = n
        res.extra["refused_steps"] = refused
        res.extra["skipped_steps"] = sum(1 for t in it.trace if t[1] == "skipped")
        for t in it.trace:
            if t[1] not in ("ok", "skipped"):
                res.extra["refused:" + t[0]] = res.extra.get("refused:" + t[0], 0) + 1
        return res


PROP = C01()
