import importlib


def load(pid):
    mod = importlib.import_module("vf.props.%s" % pid.lower())
    return mod.PROP
