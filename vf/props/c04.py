"""C04 - structural Verilog write-then-read returns the same netlist"""
import copy
import glob
import os
import re
import tempfile

from hypothesis import strategies as st

from vf import gen_verilog, model
from vf.core import Prop, Result
from vf.props.c06 import compare_views, parse_text

TRANSFORMS = ["none", "none", "none", "uniquify", "flatten", "clone"]


def fold(v):
    """documented write behaviour: an undefined port direction is written as inout; the primitive
    flag of an inferred black box is not part of the text"""
    v = copy.deepcopy(v)
    for m in v["mods"].values():
        m["prim"] = False
        if m["lib"] == "hdi_primitives":
            # a black box has no contents; once written it is re-read as a celldefine module whose
            # ports own a cable each. That is representation, not design.
            m["cables"] = {}
            m["conn"] = {}
        for p in m["ports"]:
            if p["dir"] == "undefined":
                p["dir"] = "inout"
            p.pop("key", None)
    return v


def reachable(nl):
    out = set()
    t = nl.top_instance
    stack = [t.reference] if t is not None and t.reference is not None else []
    while stack:
        D = stack.pop()
        if D.name in out:
            continue
        out.add(D.name)
        for I in D.children:
            if I.reference is not None:
                stack.append(I.reference)
    return out


class C04(Prop):
    ID = "C04"
    RULE = ("netlists produced by the Verilog reader from the independent writer's sources (C06 domain: "
            "named/positional maps, modules before/after use, celldefine or inferred primitives, ranges, "
            "escaped identifiers, parameters, attributes, slices, concatenations, partial and empty "
            "connections, constants, assigns) and from the bundled .v examples (<=10 kB quick, all "
            "thorough), then optionally uniquify / flatten / clone; oracle: compose does not raise, the "
            "reader accepts the text, and the bit-level view (modules, ports dir/width/base with the "
            "documented undefined->inout folding, cables, instances with module/parameters/attributes, "
            "connectivity per cable bit, assigns as a multiset per width) is equal before and after. "
            "non-trivial = the source has a slice/concatenation, a partial connection, or an assign; "
            "distinct = distinct case JSON")
    ASSUMPTIONS = ["default composer options (write_blackbox=True); C16 covers the options",
                   "undefined port directions are written as inout (documented); the VERILOG.primitive "
                   "flag is not part of the comparison"]
    N = {"quick": 4800, "thorough": 60000}
    CASE_TIMEOUT_S = 120

    def strategy(self, tier):
        big = tier == "thorough"
        return st.fixed_dictionaries({
            "design": gen_verilog.designs(max_mods=5 if big else 4, max_insts=5 if big else 4),
            "transform": st.sampled_from(TRANSFORMS),
            # writer option: parameters as defparam statements instead of #(...) maps
            "defparam": st.integers(0, 3).map(lambda v: v == 0)})

    def fixed_cases(self, tier):
        limit = 10000 if tier == "quick" else 10 ** 9
        repo = os.environ.get("VERIF_REPO", "/repo")
        files = sorted(glob.glob(os.path.join(repo, "example_netlists", "verilog_netlists", "*.v.zip")))
        return [{"example": os.path.basename(f), "transform": "none"} for f in files
                if 200 < os.path.getsize(f) <= limit]

    def run(self, case):
        import spydrnet as sdn
        import spydrnet.uniquify as U
        import spydrnet.flatten as F

        res = Result()
        U.MOD_NAME_UID = 0
        F.mod_name_uid = 0
        F.unique_number = 0
        if "example" in case:
            repo = os.environ.get("VERIF_REPO", "/repo")
            res.label("bundled-example")
            try:
                nl = sdn.parse(os.path.join(repo, "example_netlists", "verilog_netlists", case["example"]))
            except Exception:  # noqa (C06's business)
                sdn.namespace_manager.default = "DEFAULT"
                res.label("example-rejected-by-reader")
                return res
            res.nontrivial = True
        else:
            d = dict(case["design"])
            if not gen_verilog.in_domain(d):
                res.label("out-of-domain(shrunk)")
                return res
            text, _, info = gen_verilog.text_of(d)
            if info["concat"] or info["slice"] or info["partial"] or info["assign"]:
                res.nontrivial = True
            try:
                nl = parse_text(text)
            except Exception:  # noqa (C06's business)
                sdn.namespace_manager.default = "DEFAULT"
                res.label("source-rejected-by-reader")
                return res
        tr = case.get("transform", "none")
        res.label("transform-" + tr)
        try:
            if tr == "uniquify":
                U.uniquify(nl)
            elif tr == "flatten":
                U.uniquify(nl)
                F.flatten(nl)
            elif tr == "clone":
                nl = nl.clone()
        except Exception as e:  # noqa
            # whether the transform is right is decided by C07/C08/C09; but on the pinned tree it never
            # refuses a netlist the reader produced, and a refusal takes that netlist out of this
            # property's domain (nothing left to write): reported, so that the domain cannot shrink
            # unnoticed
            res.violate("C04:transform-raises:%s:%s" % (tr, type(e).__name__), repr(e)[:300])
            return res
        before = fold(gen_verilog.view(nl))
        keep = None
        if tr == "flatten":
            # flatten leaves the emptied shell definitions behind (ports without nets, not
            # expressible in Verilog and not part of the design any more): compare what the top uses
            keep = reachable(nl)
            before["mods"] = {k: v for k, v in before["mods"].items() if k in keep}
        with tempfile.TemporaryDirectory() as td:
            path = os.path.join(td, "out.v")
            try:
                if case.get("defparam"):
                    res.label("option-defparam")
                    sdn.compose(nl, path, defparam=True)
                else:
                    sdn.compose(nl, path)
            except Exception as e:  # noqa
                sig = "C04:compose-raises:%s:%s" % (type(e).__name__, tr)
                if tr == "flatten" and "multiple cables appear to be connected to a single assign" not in str(e):
                    sig += ":other"  # the recorded finding is that one refusal only
                res.violate(sig, repr(e)[:400])
                return res
            text2 = open(path).read()
            try:
                nl2 = sdn.parse(path)
            except Exception as e:  # noqa
                sdn.namespace_manager.default = "DEFAULT"
                sig = "C04:reader-rejects-written-text:%s:%s" % (type(e).__name__, tr)
                if tr == "flatten" and not re.search(r"but got \S*/", str(e)):
                    sig += ":other"  # the recorded finding is the slash-joined names only
                res.violate(sig, "%r\n%s" % (e, text2[:1500]))
                return res
        after = fold(gen_verilog.view(nl2))
        if keep is not None:
            after["mods"] = {k: v for k, v in after["mods"].items() if k in keep}
        # only what is reachable from the top is written: compare the written modules
        compare_views(res, "C04", before, after)
        if res.violations:
            sig, det = res.violations[0]
            res.violations[0] = (sig + ":" + tr, det + "\n" + text2[:1500])
        return res


PROP = C04()
