"""C19 - listeners are told of every structural change before it happens"""
from hypothesis import strategies as st

from vf import gen_ir, ops
from vf.core import Prop, Result
from vf.model import freeze
from vf.props import c01, c14

WEIGHTS = dict(c01.WEIGHTS)
WEIGHTS.update({"def.remove_port": 5, "port.remove_pin": 4, "inst.reference=": 6, "inst.del_reference": 2,
                "def.create_child": 4, "def.create_port": 3, "def.create_cable": 3, "el.set": 4,
                "el.pop": 3, "el.del": 3, "el.name=": 4, "el.del_name": 2, "nl.top=": 3,
                "nl.set_top_instance": 2, "wire.connect_pin": 9, "el.clone": 0, "el.clone_container": 0,
                "ns.default=": 2})


def pinkey(p):
    if hasattr(p, "inner_pin"):
        return ("o", id(p.instance) if p.instance is not None else None,
                id(p.inner_pin) if p.inner_pin is not None else None)
    return ("i", id(p))


HOOKS = ["create_netlist", "create_library", "create_definition", "create_port", "create_cable",
         "create_instance", "cable_add_wire", "cable_remove_wire", "definition_add_port",
         "definition_remove_port", "definition_add_child", "definition_remove_child",
         "definition_add_cable", "definition_remove_cable", "instance_reference",
         "library_add_definition", "library_remove_definition", "netlist_top_instance",
         "netlist_add_library", "netlist_remove_library", "port_add_pin", "port_remove_pin",
         "wire_connect_pin", "wire_disconnect_pin", "dictionary_set", "dictionary_delete",
         "dictionary_pop"]


def still_registered(listener):
    """names of the global callback lists that still hold a method of this listener"""
    from spydrnet.global_state import global_callback

    out = []
    for k, v in vars(global_callback).items():
        if k.startswith("_container_") and isinstance(v, (list, set)):
            if any(getattr(f, "__self__", None) is listener for f in v):
                out.append(k[len("_container_"):])
    return sorted(out)


def make_partial_listener(selectors):
    """a passive listener that overrides only a drawn subset of the hooks (counts its calls)"""
    from spydrnet.callback.callback_listener import CallbackListener

    names = sorted({HOOKS[k % len(HOOKS)] for k in selectors})
    ns = {}
    for h in names:
        def f(self, *a, _h=h, **kw):
            self.calls += 1
        ns[h] = f

    def init(self):
        self.calls = 0
        CallbackListener.__init__(self)
    ns["__init__"] = init
    return type("Partial", (CallbackListener,), ns)(), names


def make_listener_class():
    from spydrnet.callback.callback_listener import CallbackListener
    import spydrnet as sdn

    class Rec(CallbackListener):
        """shadow model updated only from announcements"""

        def __init__(self, U=None):
            self.cont = {}
            self.conn = {}
            self.ref = {}
            self.top = {}
            self.data = {}
            self.keep = []
            self.before_bad = []
            self.announced = set()
            self.count = 0
            if U is not None:
                self.init_from_real(U)
            super().__init__()

        # ---- helpers
        def init_from_real(self, U):
            real = real_view(U)
            self.cont = {k: set(v) for k, v in real["cont"].items()}
            self.conn = {k: set(v) for k, v in real["conn"].items()}
            self.ref = dict(real["ref"])
            self.top = dict(real["top"])
            self.data = {k: dict(v) for k, v in real["rawdata"].items()}

        def first(self, *key):
            self.count += 1
            if key in self.announced:
                return False
            self.announced.add(key)
            return True

        def new_call(self):
            self.before_bad = []
            self.announced = set()

        def _add(self, hook, parent, attr, child, backattr):
            self.keep.extend([parent, child])
            if self.first(hook, id(parent), id(child)):
                if getattr(child, backattr) is not None or any(x is child for x in getattr(parent, attr)):
                    self.before_bad.append(hook)
            self.cont.setdefault((id(parent), attr), set()).add(id(child))

        def _remove(self, hook, parent, attr, child, backattr):
            self.keep.extend([parent, child])
            if self.first(hook, id(parent), id(child)):
                if getattr(child, backattr) is not parent or \
                        sum(1 for x in getattr(parent, attr) if x is child) != 1:
                    self.before_bad.append(hook)
            self.cont.setdefault((id(parent), attr), set()).discard(id(child))

        # ---- creation
        def create_netlist(self, netlist):
            self.keep.append(netlist)
            self.count += 1

        create_library = create_definition = create_port = create_cable = create_instance = create_netlist

        # ---- containment
        def netlist_add_library(self, netlist, library):
            self._add("netlist_add_library", netlist, "libraries", library, "netlist")

        def netlist_remove_library(self, netlist, library):
            self._remove("netlist_remove_library", netlist, "libraries", library, "netlist")

        def library_add_definition(self, library, definition):
            self._add("library_add_definition", library, "definitions", definition, "library")

        def library_remove_definition(self, library, definition):
            self._remove("library_remove_definition", library, "definitions", definition, "library")

        def definition_add_port(self, definition, port):
            self._add("definition_add_port", definition, "ports", port, "definition")

        def definition_remove_port(self, definition, port):
            self._remove("definition_remove_port", definition, "ports", port, "definition")

        def definition_add_cable(self, definition, cable):
            self._add("definition_add_cable", definition, "cables", cable, "definition")

        def definition_remove_cable(self, definition, cable):
            self._remove("definition_remove_cable", definition, "cables", cable, "definition")

        def definition_add_child(self, definition, child):
            self._add("definition_add_child", definition, "children", child, "parent")

        def definition_remove_child(self, definition, child):
            self._remove("definition_remove_child", definition, "children", child, "parent")

        def port_add_pin(self, port, pin):
            self._add("port_add_pin", port, "pins", pin, "port")

        def port_remove_pin(self, port, pin):
            self._remove("port_remove_pin", port, "pins", pin, "port")

        def cable_add_wire(self, cable, wire):
            self._add("cable_add_wire", cable, "wires", wire, "cable")

        def cable_remove_wire(self, cable, wire):
            self._remove("cable_remove_wire", cable, "wires", wire, "cable")

        # ---- connections
        def _canon(self, pin):
            if hasattr(pin, "inner_pin") and pin.instance is not None and pin.inner_pin is not None:
                return pin.instance.pins.get(pin.inner_pin, pin)
            return pin

        def wire_connect_pin(self, wire, pin):
            self.keep.extend([wire, pin])
            k = pinkey(pin)
            if self.first("wire_connect_pin", id(wire), k):
                real = self._canon(pin)
                if real.wire is wire or any(x is real for x in wire.pins):
                    self.before_bad.append("wire_connect_pin")
            self.conn.setdefault(id(wire), set()).add(k)

        def wire_disconnect_pin(self, wire, pin):
            self.keep.extend([wire, pin])
            k = pinkey(pin)
            if self.first("wire_disconnect_pin", id(wire), k):
                real = self._canon(pin)
                if real.wire is not wire or sum(1 for x in wire.pins if x is real) != 1:
                    self.before_bad.append("wire_disconnect_pin")
            self.conn.setdefault(id(wire), set()).discard(k)

        # ---- references
        def instance_reference(self, instance, reference):
            self.keep.extend([instance, reference])
            old = instance.reference
            if self.first("instance_reference", id(instance), id(reference)):
                if old is not None and instance not in old.references:
                    self.before_bad.append("instance_reference")
            if old is not None and reference is not None:
                # re-point: connections follow (port index, pin index); read at announcement time
                m = {}
                for P0, P1 in zip(old.ports, reference.ports):
                    for p0, p1 in zip(P0.pins, P1.pins):
                        m[id(p0)] = id(p1)
                for w, keys in self.conn.items():
                    new = set()
                    for k in keys:
                        if k[0] == "o" and k[1] == id(instance) and k[2] in m:
                            new.add(("o", k[1], m[k[2]]))
                        else:
                            new.add(k)
                    self.conn[w] = new
            self.ref[id(instance)] = id(reference) if reference is not None else None

        def netlist_top_instance(self, netlist, instance):
            self.keep.extend([netlist, instance])
            self.count += 1
            if isinstance(instance, sdn.Definition):
                self.top[id(netlist)] = ("definition", id(instance))
            else:
                self.top[id(netlist)] = id(instance) if instance is not None else None

        # ---- data
        def dictionary_set(self, element, key, value):
            self.keep.append(element)
            if self.first("dictionary_set", id(element), key):
                pass
            self.data.setdefault(id(element), {})[key] = value

        def dictionary_delete(self, element, key):
            self.keep.append(element)
            if self.first("dictionary_delete", id(element), key):
                if key in self.data.get(id(element), {}) and key not in element:
                    self.before_bad.append("dictionary_delete")
            self.data.setdefault(id(element), {}).pop(key, None)

        def dictionary_pop(self, element, key):
            self.keep.append(element)
            if self.first("dictionary_pop", id(element), key):
                if key in self.data.get(id(element), {}) and key not in element:
                    self.before_bad.append("dictionary_pop")
            self.data.setdefault(id(element), {}).pop(key, None)

    return Rec


def real_view(U):
    P = U.pool
    V = {"cont": {}, "conn": {}, "ref": {}, "top": {}, "data": {}, "rawdata": {}}
    for N in P["netlist"]:
        V["cont"][(id(N), "libraries")] = {id(x) for x in N.libraries}
        t = N.top_instance
        V["top"][id(N)] = id(t) if t is not None else None
    for L in P["library"]:
        V["cont"][(id(L), "definitions")] = {id(x) for x in L.definitions}
    for D in P["definition"]:
        V["cont"][(id(D), "ports")] = {id(x) for x in D.ports}
        V["cont"][(id(D), "cables")] = {id(x) for x in D.cables}
        V["cont"][(id(D), "children")] = {id(x) for x in D.children}
    for B in P["port"]:
        V["cont"][(id(B), "pins")] = {id(x) for x in B.pins}
    for B in P["cable"]:
        V["cont"][(id(B), "wires")] = {id(x) for x in B.wires}
    for w in P["wire"]:
        V["conn"][id(w)] = {pinkey(p) for p in w.pins}
    for I in P["instance"]:
        V["ref"][id(I)] = id(I.reference) if I.reference is not None else None
    for E in U.first_class():
        V["data"][id(E)] = {str(k): freeze(E.data[k]) for k in E.data}
        V["rawdata"][id(E)] = dict(E.data)
    return V


def compare(rec, U):
    """components where the shadow differs from the real universe (pooled objects only)"""
    V = real_view(U)
    bad = []
    for k, v in V["cont"].items():
        if rec.cont.get(k, set()) != v:
            bad.append(("containment:" + k[1], ""))
    for k, v in V["conn"].items():
        if rec.conn.get(k, set()) != v:
            bad.append(("connections", "shadow %d pins, real %d" % (len(rec.conn.get(k, set())),
                                                                  len(v))))
    for k, v in V["ref"].items():
        if rec.ref.get(k) != v:
            bad.append(("reference", ""))
    for k, v in V["top"].items():
        if rec.top.get(k) != v:
            bad.append(("top-instance", repr(rec.top.get(k))))
    for k, v in V["data"].items():
        sh = {str(a): freeze(b) for a, b in rec.data.get(k, {}).items()}
        if sh != v:
            keys = sorted(set(sh) ^ set(v)) or sorted(x for x in v if sh.get(x) != v[x])
            bad.append(("data", "keys %r" % (keys[:3],)))
    return bad


class ListenerMonitor:
    def __init__(self, res, recs):
        self.res = res
        self.recs = recs  # list of (name, rec) currently registered
        self.broken = False
        self.implicit = 0
        self.refused = 0

    def before(self, U, call):
        for _, r in self.recs:
            r.new_call()
        self.c0 = [r.count for _, r in self.recs]
        self.saved = [({k: set(v) for k, v in r.cont.items()}, {k: set(v) for k, v in r.conn.items()},
                       dict(r.ref), dict(r.top), {k: dict(v) for k, v in r.data.items()})
                      for _, r in self.recs]

    def after(self, U, call, accepted, exc):
        if self.broken:
            return
        if not accepted:
            self.refused += 1
        vetoed = (not accepted) and is_veto(exc)
        for (nm, r), c0, saved in zip(self.recs, self.c0, self.saved):
            if vetoed:
                # "unless another listener vetoes it": what was announced before the veto is undone
                r.cont, r.conn, r.ref, r.top, r.data = saved
            if accepted and r.count - c0 >= 2:
                self.implicit += 1
            if accepted and r.before_bad:
                self.broken = True
                self.res.violate("C19:announced-after-effect:%s:%s" % (r.before_bad[0], call.name),
                                 "listener %s" % nm)
                return
            diff = compare(r, U)
            if diff:
                self.broken = True
                comp, detail = diff[0]
                if accepted:
                    self.res.violate("C19:mirror-diverged:%s:%s" % (comp, call.name),
                                     "listener %s: %s" % (nm, detail))
                else:
                    self.res.violate("C19:phantom-announcement:%s:%s:%s" % (
                        comp, call.name, type(exc).__name__), "listener %s: refused with %r; %s" % (
                        nm, exc, detail))
                return


def is_veto(exc):
    """the refusal was raised by another listener (the namespace manager)"""
    tb = exc.__traceback__
    while tb is not None:
        if "namespace_manager" in tb.tb_frame.f_code.co_filename:
            return True
        tb = tb.tb_next
    return False


def normalized(U):
    """final state with ids replaced by pool labels (comparable across two runs of one history)"""
    lab = {}
    for kind in ops.KINDS:
        for i, x in enumerate(U.pool[kind]):
            lab[id(x)] = "%s%d" % (kind, i)
    for I in U.pool["instance"]:
        for k, v in I.pins.items():
            lab[id(v)] = "outer(%s,%s)" % (lab.get(id(I)), lab.get(id(k), "?"))

    def conv(x):
        if isinstance(x, dict):
            return {str(conv(k)): conv(v) for k, v in x.items()}
        if isinstance(x, (list, tuple)):
            return [conv(v) for v in x]
        if isinstance(x, int) and not isinstance(x, bool) and x in lab:
            return lab[x]
        return x

    S = c14.snapshot(U)
    S.pop("data")
    out = conv(S)
    out["reference_sets"] = {k: sorted(v) for k, v in out["reference_sets"].items()}
    out["data"] = {lab[id(E)]: {str(k): freeze(E.data[k]) for k in E.data} for E in U.first_class()}
    return out


class C19(Prop):
    ID = "C19"
    RULE = ("history interpreter of C01 (no clone ops) run with one or two recording listeners "
            "(CallbackListener subclasses overriding every hook), the second one registered/removed "
            "mid-history; the design itself is built with the first listener registered. Oracles: mirror "
            "(shadow updated only from announcements == real universe after every step: containment as "
            "sets, per-wire connections, instance references, top instance, data), before (at the first "
            "announcement of a change the real links still show the old state), no phantom (after a "
            "refused call shadow == real), transparency (same history without listeners gives the same "
            "outcome trace and final state). non-trivial = >=1 accepted call with >=2 announcements "
            "(implicit change) and >=1 refused call; distinct = distinct case JSON")
    ASSUMPTIONS = ["containment is mirrored as sets (the callback API carries no positions)",
                   "a repeated announcement of the same change within one call is tolerated",
                   "the namespace manager stays registered first (as at import); its vetoes therefore "
                   "reach the recording listeners as no announcement at all",
                   "re-pointing: the listener reads port/pin positions of old and new definition at "
                   "announcement time to re-key connections (the API announces only instance, reference)"]
    N = {"quick": 3200, "thorough": 40000}

    def strategy(self, tier):
        cfg = gen_ir.Cfg(max_defs=4, max_children=3, max_width=2, max_libs=2, unnamed=True,
                         top="maybe", top_modes=["standalone", "definition", "child"], share=True,
                         noref_children=True, alphabet=["a", "A", "b", "c", "d"])
        base = c01.case_strategy(WEIGHTS, 30 if tier == "quick" else 80, cfg=cfg)
        partial = st.one_of(st.none(), st.fixed_dictionaries({
            "on": st.integers(0, 15), "len": st.integers(0, 25),
            "hooks": st.lists(st.integers(0, 27), min_size=1, max_size=6, unique=True)}))
        return st.tuples(base, st.one_of(st.none(), st.integers(0, 20)), st.integers(0, 30),
                         st.booleans(), partial).map(
            lambda t: dict(t[0], l2_on=t[1], l2_off=t[1] + t[2] if t[1] is not None else None,
                           l2_first=t[3], l3=t[4]))

    def fixed_cases(self, tier):
        from vf import matrix
        return matrix.bulk_cases()

    def run_bulk(self, res, params):
        """one bulk removal of the enumerated family (vf/matrix.py) under a recording listener"""
        from vf import matrix
        import spydrnet as sdn

        sdn.namespace_manager.default = "DEFAULT"
        Rec = make_listener_class()
        r1 = Rec()
        try:
            sc = matrix.build_bulk(params)
            U = ops.Universe()
            U.absorb(sc["netlist"])
            for x in sc["keep"]:
                U.absorb(x)
            U.refresh_outer()
            d0 = compare(r1, U)
            if d0:
                res.violate("C19:mirror-diverged-during-build:%s" % d0[0][0], d0[0][1])
                return res
            r1.new_call()
            try:
                sc["call"]()
                exc = None
            except Exception as e:  # noqa
                exc = e
            U.refresh_outer()
            res.label("bulk-family", "bulk-" + ("refused" if exc else "accepted"))
            res.nontrivial = True
            if exc is None and r1.before_bad:
                res.violate("C19:announced-after-effect:%s:bulk-%s" % (r1.before_bad[0], sc["kind"]),
                            "family %r" % (params,))
                return res
            diff = compare(r1, U)
            if diff:
                res.violate("C19:%s:%s:bulk-%s" % ("mirror-diverged" if exc is None else "phantom-announcement",
                                                 diff[0][0], sc["kind"]),
                            "family %r%s: %s" % (params, "" if exc is None else " refused with %r" % (exc,),
                                                 diff[0][1]))
        finally:
            try:
                r1.deregister_all_listeners()
            except AssertionError:
                pass
        return res

    def run(self, case):
        res = Result()
        if "bulk" in case:
            return self.run_bulk(res, case["bulk"])
        Rec = make_listener_class()
        recs = []
        r1 = Rec()
        recs.append(("L1", r1))
        trace1 = None
        try:
            U = c01.build_universe(case)
            mon = ListenerMonitor(res, recs)
            d0 = compare(r1, U)
            if d0:
                res.violate("C19:mirror-diverged-during-build:%s" % d0[0][0], d0[0][1])
            it = ops.Interpreter(U, [mon])
            r2 = None
            p3, p3_names, p3_gone, p3_calls = None, [], False, 0
            for i, op in enumerate(case["ops"]):
                if res.violations:
                    break
                if case.get("l2_on") == i and r2 is None:
                    if case.get("l2_first"):
                        # second listener ahead of the first: re-register L1 after L2
                        r1.deregister_all_listeners()
                        r2 = Rec(U)
                        r1.register_all_listeners()
                        recs.insert(0, ("L2", r2))
                    else:
                        r2 = Rec(U)
                        recs.append(("L2", r2))
                    res.label("second-listener")
                l3 = case.get("l3")
                if l3 and l3["on"] == i and p3 is None:
                    try:
                        p3, p3_names = make_partial_listener(l3["hooks"])
                    except Exception as e:  # noqa
                        res.violate("C19:registering-a-partial-listener-raises:%s" % type(e).__name__,
                                    "%r" % (e,))
                        break
                    res.label("partial-listener")
                if l3 and p3 is not None and not p3_gone and l3["on"] + l3["len"] == i:
                    try:
                        p3.deregister_all_listeners()
                    except Exception as e:  # noqa
                        res.violate("C19:removing-a-partial-listener-raises:%s" % type(e).__name__,
                                    "hooks %r: %r" % (p3_names, e))
                        break
                    p3_gone = True
                    p3_calls = p3.calls
                    left = still_registered(p3)
                    if left:
                        res.violate("C19:removed-listener-still-registered", "overrides %r; still in %r" % (
                            p3_names, left))
                        break
                if r2 is not None and case.get("l2_off") == i:
                    r2.deregister_all_listeners()
                    if still_registered(r2):
                        res.violate("C19:removed-listener-still-registered", "full listener; still in %r" % (
                            still_registered(r2),))
                        break
                    recs[:] = [x for x in recs if x[1] is not r2]
                    r2 = None
                    res.label("listener-removed-mid-history")
                it.step(op)
                if p3_gone and p3.calls != p3_calls:
                    res.violate("C19:removed-listener-still-called", "hooks %r" % (p3_names,))
            trace1 = [(a, b) for a, b, _ in it.trace]
            final1 = normalized(U) if not res.violations else None
        finally:
            if "p3" in locals() and p3 is not None and not p3_gone:
                try:
                    p3.deregister_all_listeners()
                except Exception:  # noqa (reported above when it happens inside the history)
                    pass
            for _, r in recs:
                try:
                    r.deregister_all_listeners()
                except AssertionError:
                    pass
        if mon.implicit and mon.refused:
            res.nontrivial = True
        res.extra["steps"] = len(trace1 or [])
        res.extra["refused_steps"] = mon.refused
        if res.violations:
            return res
        # transparency: same history, no extra listeners
        import spydrnet as sdn
        sdn.namespace_manager.default = "DEFAULT"
        U2 = c01.build_universe(case)
        it2 = ops.Interpreter(U2, [])
        for op in case["ops"]:
            it2.step(op)
        trace2 = [(a, b) for a, b, _ in it2.trace]
        if trace1 != trace2:
            k = next(i for i, (x, y) in enumerate(zip(trace1, trace2)) if x != y)
            res.violate("C19:listeners-change-outcome:%s" % trace1[k][0],
                        "step %d: with listeners %r, without %r" % (k, trace1[k], trace2[k]))
        elif final1 != normalized(U2):
            res.violate("C19:listeners-change-final-state", "")
        return res


PROP = C19()
