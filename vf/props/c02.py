"""C02 - instances mirror their definition: reference sets and outer pins track all edits"""
from vf import gen_ir, ops
from vf.core import Prop, Result
from vf.props.c01 import build_universe, case_strategy

WEIGHTS = {
    "def.create_port": 5, "def.add_port": 5, "def.remove_port": 6, "def.remove_ports_from": 5,
    "def.ports=": 2, "port.create_pin": 5, "port.create_pins": 3, "port.add_pin": 5,
    "port.remove_pin": 6, "port.remove_pins_from": 5, "port.pins=": 2, "port.new": 3, "pin.new": 3,
    "inst.reference=": 9, "inst.del_reference": 2, "def.create_child": 5, "def.remove_child": 2,
    "def.add_child": 2, "inst.new": 2, "nl.top=": 4, "nl.set_top_instance": 2,
    "wire.connect_pin": 9, "wire.disconnect_pin": 2, "proxy.new": 1,
    "bundle.is_downto=": 0, "bundle.lower_index=": 0, "port.direction=": 0, "bundle.is_scalar=": 0,
    "bundle.is_array=": 0, "el.set": 0, "el.del": 0, "el.pop": 0, "cable.wires=": 0,
    "nl.libraries=": 0, "lib.definitions=": 0, "def.cables=": 0,
    "el.clone_container": 2, "el.clone": 1,
}


def check_mirror(U):
    bad = []
    member_of = {}
    for D in U.pool["definition"]:
        for r in D.references:
            member_of.setdefault(id(r), []).append(D)
            if r.reference is not D:
                bad.append(("reference-set-has-instance-referencing-other", ""))
    for I in U.pool["instance"]:
        R = I.reference
        sets = member_of.get(id(I), [])
        if R is None:
            if sets:
                bad.append(("unreferenced-instance-in-a-reference-set", ""))
            if len(I.pins.keys()) != 0:
                bad.append(("unreferenced-instance-has-outer-pins", ""))
            continue
        if len(sets) != 1 or sets[0] is not R:
            bad.append(("instance-not-exactly-in-its-definitions-reference-set",
                        "in %d sets" % len(sets)))
        inner = [p for P in R.ports for p in P.pins]
        keys = list(I.pins.keys())
        if sorted(id(x) for x in keys) != sorted(id(x) for x in inner):
            bad.append(("outer-pins-do-not-match-inner-pins",
                        "%d outer pins for %d inner pins" % (len(keys), len(inner))))
            continue
        for ip in keys:
            op = I.pins[ip]
            if op.instance is not I:
                bad.append(("outer-pin-names-other-instance", ""))
            if op.inner_pin is not ip:
                bad.append(("outer-pin-names-other-inner-pin", ""))
            if I.pins[op] is not op or ip not in I.pins:
                bad.append(("outer-pin-lookup-inconsistent", ""))
    return bad


def live_outer(U):
    return {id(op): op for I in U.pool["instance"] for op in I.pins.values()}


class MirrorMonitor:
    def __init__(self, res, prefix="C02"):
        self.res = res
        self.prefix = prefix
        self.broken = False
        self.live = None
        self.snap = None
        self.stats = {"edit_on_instanced_def": 0, "repoint_connected": 0, "vanished": 0,
                      "vanished_connected": 0}
        self.was_connected = {}

    def before(self, U, call):
        self.live = live_outer(U)
        self.was_connected = {i: (op.wire is not None) for i, op in self.live.items()}
        self.snap = None
        kind = call.meta.get("kind")
        if kind == "reference":
            I = call.target
            if I.reference is not None:
                self.snap = [[I.pins[p].wire if p in I.pins else None for p in P.pins]
                             for P in I.reference.ports]
                if any(w is not None for row in self.snap for w in row):
                    self.stats["repoint_connected"] += 1
        n = call.name
        D = None
        if n.startswith("def.") and ("port" in n):
            D = call.target
        elif n.startswith("port.") and "pin" in n:
            D = call.target.definition
        self.instanced = D is not None and len(D.references) > 0

    def after(self, U, call, accepted, exc):
        if self.broken:
            return
        if accepted and self.instanced:
            self.stats["edit_on_instanced_def"] += 1
        for code, detail in check_mirror(U):
            return self.fail(call, code, detail)
        now = live_outer(U)
        gone = [op for i, op in self.live.items() if i not in now]
        if gone:
            self.stats["vanished"] += 1
            if any(self.was_connected.get(id(op)) for op in gone):
                self.stats["vanished_connected"] += 1
            gone_ids = {id(op) for op in gone}
            for op in gone:
                if op.wire is not None:
                    return self.fail(call, "vanished-outer-pin-still-reports-wire", "")
            for w in U.pool["wire"]:
                for p in w.pins:
                    if id(p) in gone_ids:
                        return self.fail(call, "vanished-outer-pin-still-on-wire", "")
        if accepted and call.meta.get("kind") == "reference" and self.snap is not None:
            I = call.target
            R = I.reference
            if R is not None:
                after = [[I.pins[p].wire if p in I.pins else None for p in P.pins] for P in R.ports]
                same = len(after) == len(self.snap) and all(
                    len(x) == len(y) and all(a is b for a, b in zip(x, y))
                    for x, y in zip(after, self.snap))
                if not same:
                    return self.fail(call, "repoint-moved-connections", "")

    def fail(self, call, code, detail):
        self.broken = True
        self.res.violate("%s:%s:after:%s" % (self.prefix, code, call.name), detail)


class C02(Prop):
    ID = "C02"
    RULE = ("same history interpreter as C01, weighted towards port/pin add/remove/reorder on "
            "definitions that have instances (children and top instances), instance creation, "
            "re-pointing between shape-compatible and incompatible definitions, un-referencing, "
            "top_instance = definition; after every step, over the whole pool: instance in exactly its "
            "definition's reference set, outer pins = inner pins of the definition with correct "
            "instance/inner_pin/lookup, vanished outer pins off their wires, accepted re-point keeps every "
            "(port index, pin index) -> wire. non-trivial = a port/pin add/remove accepted on a definition "
            "with >=1 reference at that moment, or a reference change on an instance with >=1 connected "
            "pin; distinct = distinct case JSON")
    ASSUMPTIONS = ["arguments are always of the documented type"]
    N = {"quick": 3200, "thorough": 40000}

    def strategy(self, tier):
        cfg = gen_ir.Cfg(max_defs=4, max_children=4, max_width=2, max_libs=2, unnamed=True,
                         top="maybe", top_modes=["standalone", "definition", "child"], share=True,
                         noref_children=True, alphabet=["a", "A", "b", "c", "d", "e"])
        return case_strategy(WEIGHTS, 40 if tier == "quick" else 120, cfg=cfg)

    def fixed_cases(self, tier):
        from vf import matrix
        return matrix.shape_cases() + [c for c in matrix.bulk_cases() if c["bulk"][0] in ("ports", "pins")]

    def run_family(self, res, case):
        """enumerated families (vf/matrix.py): re-pointing between port shapes incl. two-digit widths;
        bulk port / pin removal on instanced definitions of up to 40 members"""
        from vf import matrix
        import spydrnet as sdn

        sdn.namespace_manager.default = "DEFAULT"
        sc = matrix.build_shape(case["shape"]) if "shape" in case else matrix.build_bulk(case["bulk"])
        U = ops.Universe()
        U.absorb(sc["netlist"])
        for x in sc.get("keep", []):
            U.absorb(x)
        U.refresh_outer()
        pre = check_mirror(U)
        if pre:
            raise RuntimeError("family scene inconsistent: %r" % pre[:3])
        wires_before = None
        if "shape" in case:
            I = sc["instance"]
            wires_before = [[id(I.pins[p].wire) for p in P.pins] for P in sc["old"].ports]
        try:
            sc["call"]()
            outcome = "accepted"
        except Exception as e:  # noqa
            outcome = "refused"
        U.refresh_outer()
        tag = "shape" if "shape" in case else "bulk-" + sc["kind"]
        res.label(tag + "-family", tag + "-" + outcome)
        res.nontrivial = True
        for code, detail in check_mirror(U):
            res.violate("C02:%s:after:%s:%s" % (code, tag, outcome), "family %r: %s" % (
                case.get("shape") or case.get("bulk"), detail))
            return res
        if "shape" in case and outcome == "accepted":
            if not sc["compatible"]:
                res.violate("C02:incompatible-reference-accepted", "widths %r -> %r" % tuple(case["shape"]))
                return res
            I = sc["instance"]
            now = [[id(I.pins[p].wire) for p in P.pins] for P in sc["new"].ports]
            if now != wires_before:
                res.violate("C02:repoint-moved-connections:after:shape", "widths %r" % (case["shape"][0],))
        if "shape" in case and outcome == "refused" and sc["compatible"]:
            res.violate("C02:compatible-reference-refused", "widths %r -> %r" % tuple(case["shape"]))
        return res

    def run(self, case):
        res = Result()
        if "shape" in case or "bulk" in case:
            return self.run_family(res, case)
        U = build_universe(case)
        mon = MirrorMonitor(res)
        pre = check_mirror(U)
        if pre:
            raise RuntimeError("initial universe inconsistent: %r" % pre[:3])
        it = ops.Interpreter(U, [mon])
        for op in case["ops"]:
            it.step(op)
            if mon.broken:
                break
        s = mon.stats
        if s["edit_on_instanced_def"] or s["repoint_connected"]:
            res.nontrivial = True
        if s["repoint_connected"]:
            res.label("repoint-with-connected-pin")
        if s["vanished_connected"]:
            res.label("connected-outer-pin-vanished")
        if s["edit_on_instanced_def"]:
            res.label("port/pin-edit-on-instanced-definition")
        res.extra["steps"] = len(it.trace)
        res.extra["refused_steps"] = sum(1 for t in it.trace if t[1] not in ("ok", "skipped"))
        return res


PROP = C02()
