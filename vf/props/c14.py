"""C14 - a refused edit changes nothing"""
from vf import gen_ir, ops
from vf.core import Prop, Result
from vf.model import freeze
from vf.props.c01 import build_universe, case_strategy

NAMES = ["a", "A", "b", "a_1", "1a", "a-b", "&1", "", "c"]
LOOKUP_NAMES = ["a", "A", "b", "a_1", "&1", "c", "aB", "Ab", "b_"]
WEIGHTS = {
    "def.create_child": 6, "def.create_port": 5, "def.create_cable": 5, "lib.create_definition": 4,
    "nl.create_library": 3, "nl.set_top_instance": 3, "nl.top=": 2,
    "el.name=": 6, "el.set": 6, "el.del": 2, "el.pop": 2, "el.del_name": 2,
    "def.add_port": 3, "def.add_cable": 3, "def.add_child": 3, "lib.add_definition": 3,
    "nl.add_library": 3, "port.add_pin": 2, "cable.add_wire": 2,
    "wire.connect_pin": 6, "wire.disconnect_pin": 3, "wire.disconnect_pins_from": 9,
    "inst.reference=": 6, "def.remove_ports_from": 2, "port.remove_pins_from": 2,
    "def.remove_children_from": 2, "def.remove_cables_from": 2, "cable.remove_wires_from": 2,
    "port.new": 2, "cable.new": 2, "inst.new": 2, "def.new": 2, "lib.new": 2, "proxy.new": 2,
    "el.clone_container": 1, "bundle.is_scalar=": 1, "bundle.is_array=": 1, "bundle.is_downto=": 0, "bundle.lower_index=": 0,
    "port.direction=": 0,
}


def snapshot(U):
    """identity-level state of the whole pool, split in components"""
    P = U.pool
    S = {"containment": {}, "parents": {}, "connections": {}, "reference_sets": {}, "instances": {},
         "data": {}, "top": {}, "attrs": {}, "stored": {}}
    for N in P["netlist"]:
        S["containment"][id(N)] = [id(x) for x in N.libraries]
        t = N.top_instance
        S["top"][id(N)] = id(t) if t is not None else None
    for L in P["library"]:
        S["containment"][id(L)] = [id(x) for x in L.definitions]
        S["parents"][id(L)] = id(L.netlist) if L.netlist is not None else None
    for D in P["definition"]:
        S["containment"][id(D)] = [[id(x) for x in D.ports], [id(x) for x in D.cables],
                                   [id(x) for x in D.children]]
        S["parents"][id(D)] = id(D.library) if D.library is not None else None
        S["reference_sets"][id(D)] = sorted(id(r) for r in D.references)
    for B in P["port"]:
        S["containment"][id(B)] = [id(x) for x in B.pins]
        S["parents"][id(B)] = id(B.definition) if B.definition is not None else None
        S["attrs"][id(B)] = [B.direction.name, B.is_downto, bool(B.is_scalar), B.lower_index,
                             getattr(B, "_is_scalar", None)]   # the stored flag, not only the view
    for B in P["cable"]:
        S["containment"][id(B)] = [id(x) for x in B.wires]
        S["parents"][id(B)] = id(B.definition) if B.definition is not None else None
        S["attrs"][id(B)] = [B.is_downto, bool(B.is_scalar), B.lower_index, getattr(B, "_is_scalar", None)]
    for I in P["instance"]:
        S["parents"][id(I)] = id(I.parent) if I.parent is not None else None
        S["instances"][id(I)] = [id(I.reference) if I.reference is not None else None,
                                 [[id(k), id(v), id(v.instance) if v.instance is not None else None,
                                   id(v.inner_pin) if v.inner_pin is not None else None]
                                  for k, v in I.pins.items()], bool(I.is_top_instance)]
        for v in I.pins.values():
            S["connections"][id(v)] = id(v.wire) if v.wire is not None else None
    for p in P["pin"]:
        S["parents"][id(p)] = id(p.port) if p.port is not None else None
        S["connections"][id(p)] = id(p.wire) if p.wire is not None else None
    for w in P["wire"]:
        S["parents"][id(w)] = id(w.cable) if w.cable is not None else None
        S["connections"][id(w)] = [id(x) for x in w.pins]
    for E in U.first_class():
        S["data"][id(E)] = {str(k): freeze(E.data[k]) for k in E.data}
    # every primitive slot value as stored (a flag written before the refusal, hidden by a getter)
    import enum
    S["stored"] = {}
    for kind in ("netlist", "library", "definition", "port", "cable", "instance", "pin", "wire"):
        for e in P[kind]:
            vals = []
            for klass in type(e).__mro__:
                for slot in getattr(klass, "__slots__", ()):
                    v = getattr(e, slot, None)
                    if isinstance(v, (bool, int, str, type(None), enum.Enum)):
                        vals.append((slot, str(v)))
            S["stored"][id(e)] = sorted(vals)
    return S


def lookups(objs, extra=()):
    """answers of every exact lookup over the alphabet (and the strings the call itself carries) for
    the given parents"""
    import spydrnet as sdn

    out = {}
    seen = set()
    values = LOOKUP_NAMES + [v for v in extra if v not in LOOKUP_NAMES]
    for X in objs:
        if X is None or id(X) in seen:
            continue
        seen.add(id(X))
        if isinstance(X, sdn.Netlist):
            fns = [("lib", sdn.get_libraries)]
        elif isinstance(X, sdn.Library):
            fns = [("def", sdn.get_definitions)]
        elif isinstance(X, sdn.Definition):
            fns = [("port", sdn.get_ports), ("cable", sdn.get_cables), ("inst", sdn.get_instances)]
        else:
            continue
        for tag, fn in fns:
            for key in (".NAME", "EDIF.identifier"):
                for v in values:
                    try:
                        r = sorted(id(x) for x in fn(X, v, key=key))
                    except Exception as e:  # noqa
                        r = "raises " + type(e).__name__
                    out[(id(X), tag, key, v)] = r
    return out


def involved(call):
    objs = [call.target]
    for a in call.args:
        if isinstance(a, (list, tuple)):
            objs.extend(a)
        else:
            objs.append(a)
    more = []
    for o in objs:
        for attr in ("netlist", "library", "definition", "parent"):
            par = getattr(o, attr, None)
            if par is not None and not callable(par):
                more.append(par)
    return [o for o in objs + more if o is not None and not isinstance(o, (str, int, bool))]


class RefusalMonitor:
    def __init__(self, res):
        self.res = res
        self.S0 = None
        self.L0 = None
        self.refused_on_instanced = 0
        self.refused = 0

    def before(self, U, call):
        self.S0 = snapshot(U)
        self.inv = involved(call)
        self.strings = sorted({a for a in call.args if isinstance(a, str) and a and len(a) < 300
                               and "*" not in a and "?" not in a})
        self.L0 = lookups(self.inv, self.strings)

    def after(self, U, call, accepted, exc):
        if accepted:
            return
        self.refused += 1
        if any(len(D.references) for D in U.pool["definition"]):
            self.refused_on_instanced += 1
        S1 = snapshot(U)
        reason = type(exc).__name__
        for comp in sorted(self.S0):
            a, b = self.S0[comp], S1[comp]
            if a != b:
                # objects created by the refused call itself (half-built) are new keys: only a
                # problem if they are registered somewhere, which shows in the other components
                changed = [k for k in a if a[k] != b.get(k, "<gone>")]
                if changed:
                    self.res.violate("C14:%s-changed:%s:%s" % (comp, call.name, reason),
                                     "refused with %r; %d entries differ" % (exc, len(changed)))
        L1 = lookups(self.inv, self.strings)
        if L1 != self.L0:
            diffs = [k[1:] for k in self.L0 if self.L0[k] != L1.get(k)]
            self.res.violate("C14:lookup-answer-changed:%s:%s" % (call.name, reason),
                             "refused with %r; %r" % (exc, diffs[:3]))


class C14(Prop):
    ID = "C14"
    RULE = ("history interpreter of C01 weighted so that many calls violate a precondition or the naming "
            "policy (compound constructors with colliding/illegal names, foreign elements, already "
            "connected pins, mismatching references, non-permutations), under DEFAULT and EDIF; before "
            "every call an identity-level snapshot of the whole pool (containment lists, parent pointers, "
            "connections, reference sets of every definition, instance reference/pin maps, data, top "
            "instances, bundle attributes) plus the answers of every exact name/identifier lookup on the "
            "containers involved; if the call raises, the snapshot after must be equal. non-trivial = "
            ">=1 refused call in a universe with >=1 instanced definition; distinct = distinct case JSON")
    ASSUMPTIONS = ["arguments are of the documented type (TypeErrors from wrong types are out of scope)",
                   "proxy OuterPin objects are lookup keys, not netlist state"]
    N = {"quick": 8000, "thorough": 60000}

    def strategy(self, tier):
        cfg = gen_ir.Cfg(max_defs=4, max_children=3, max_width=2, max_libs=2, unnamed=True,
                         top="maybe", top_modes=["standalone", "definition", "child"], share=True,
                         alphabet=["a", "A", "b", "c", "a_1"], noref_children=True)
        return case_strategy(WEIGHTS, 30 if tier == "quick" else 80, cfg=cfg, names=NAMES,
                             own_bias=2, policies=("DEFAULT", "EDIF"))

    def fixed_cases(self, tier):
        from vf import matrix
        return matrix.bulk_cases() + matrix.shape_cases()

    def run_family(self, res, case):
        """enumerated families (vf/matrix.py): whenever the call is refused, nothing may have changed"""
        from vf import matrix
        import spydrnet as sdn

        sdn.namespace_manager.default = "DEFAULT"
        sc = matrix.build_shape(case["shape"]) if "shape" in case else matrix.build_bulk(case["bulk"])
        U = ops.Universe()
        U.absorb(sc["netlist"])
        for x in sc.get("keep", []):
            U.absorb(x)
        U.refresh_outer()
        S0 = snapshot(U)
        parents = U.pool["netlist"] + U.pool["library"] + U.pool["definition"]
        names = ["u0", "u1", "c0", "c1", "p0", "p1", "m0", "l0", "f0", "leaf", "d", "other"]
        L0 = lookups(parents, names)
        try:
            sc["call"]()
            exc = None
        except Exception as e:  # noqa
            exc = e
        tag = "shape" if "shape" in case else "bulk-" + sc["kind"]
        res.label(tag + "-family", tag + ("-refused" if exc else "-accepted"))
        if exc is None:
            if "shape" in case and not sc["compatible"]:
                # the property's own list of refusals names "mismatching references": the setter
                # documents (asserts) equal port shapes
                res.violate("C14:mismatching-reference-accepted:shape", "widths %r -> %r" % tuple(case["shape"]))
            return res
        res.nontrivial = True
        S1 = snapshot(U)
        for comp in sorted(S0):
            a, b = S0[comp], S1[comp]
            changed = [k for k in a if a[k] != b.get(k, "<gone>")]
            if changed:
                res.violate("C14:%s-changed:%s:%s" % (comp, tag, type(exc).__name__),
                            "family %r refused with %r; %d entries differ" % (
                                case.get("shape") or case.get("bulk"), exc, len(changed)))
                return res
        if lookups(parents, names) != L0:
            res.violate("C14:lookup-answer-changed:%s:%s" % (tag, type(exc).__name__),
                        "family %r" % (case.get("shape") or case.get("bulk"),))
        return res

    def run(self, case):
        res = Result()
        if "shape" in case or "bulk" in case:
            return self.run_family(res, case)
        U = build_universe(case)
        mon = RefusalMonitor(res)
        it = ops.Interpreter(U, [mon])
        for op in case["ops"]:
            it.step(op)
            if res.violations:
                break
        if mon.refused_on_instanced:
            res.nontrivial = True
        if case.get("policy") == "EDIF":
            res.label("policy-EDIF")
        res.extra["steps"] = len(it.trace)
        res.extra["refused_steps"] = mon.refused
        for t in it.trace:
            if t[1] not in ("ok", "skipped"):
                k = "refused:%s:%s" % (t[0], t[1])
                res.extra[k] = res.extra.get(k, 0) + 1
        return res


PROP = C14()
