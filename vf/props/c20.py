"""C20 - the netlist comparer accepts equal netlists and rejects structural differences"""
import contextlib
import io

from hypothesis import strategies as st

from vf import gen_ir, model
from vf.core import Prop, Result

MUTATIONS = ["instance-repoint", "instance-repoint-same-name-other-library", "port-direction", "port-width", "port-arrayness", "cable-width",
             "conn-to-other-instance", "conn-to-other-port-same-instance", "conn-to-other-bit-same-port",
             "conn-to-other-wire-same-cable", "inner-conn-to-other-bit", "instance-repoint",
             "instance-repoint-same-name-other-library",
             "property-value", "property-value", "property-value", "property-removed", "drop-library", "drop-definition", "drop-port",
             "drop-cable", "drop-instance", "add-library", "add-definition", "add-port", "add-cable",
             "add-instance", "instance-reference-dropped", "instance-reference-gained"]


def compare(a, b):
    from spydrnet.compare.compare_netlists import Comparer

    with contextlib.redirect_stdout(io.StringIO()):
        Comparer(a, b).compare()


class C20(Prop):
    ID = "C20"
    RULE = ("named design recipes (instance EDIF.properties, shared definitions, buses, late edits) built "
            "through the API; equal copies: the same recipe built twice and N.clone(); then one drawn "
            "single mutation of the copy among the differences the comparer is documented to examine "
            "(port direction/width/array-ness, cable width, a connection moved to another instance / "
            "another port of the same instance / another bit / another wire of the cable, instance "
            "re-pointed / stripped of or given a reference, property value changed or removed, one library/definition/port/cable/instance "
            "dropped or added); oracle: equal => Comparer(N, copy).compare() returns, different => it "
            "raises. non-trivial = the drawn mutation was applicable and N has >=1 instance with >=2 "
            "connected pins; distinct = distinct case JSON")
    ASSUMPTIONS = ["Comparer(original, copy) argument order; unnamed elements are outside the domain",
                   "write-then-read copies are exercised by C03/C04 (which run the comparer on their "
                   "round-trip results)"]
    N = {"quick": 3200, "thorough": 40000}

    def cfg(self, tier):
        big = tier == "thorough"
        return gen_ir.Cfg(unnamed=False, max_defs=7 if big else 5, max_children=4, max_width=3,
                          share=True, late=True, top="always", top_modes=["standalone", "definition"],
                          data_values="edif", undefined_dir=True, twins=True, noref_children=True)

    def strategy(self, tier):
        from vf import gen_verilog
        from vf.props.c05 import NAMES

        mut = st.fixed_dictionaries({"kind": st.sampled_from(MUTATIONS), "i": st.integers(0, 40),
                                     "j": st.integers(0, 40), "k": st.integers(0, 40)})
        api = st.fixed_dictionaries({"design": gen_ir.recipes(self.cfg(tier)),
                                     "copy": st.sampled_from(["rebuild", "clone"]), "mutation": mut})
        ecfg = gen_ir.Cfg(unnamed=False, alphabet=[n for n in NAMES if "[" not in n], max_defs=5,
                          max_children=4, max_width=3, share=True, top="always", lib_monotone=True,
                          reorder=False, top_modes=["standalone"], data_values="edif")
        edif = st.fixed_dictionaries({"design": gen_ir.recipes(ecfg), "copy": st.just("edif-roundtrip"),
                                      "stream": st.lists(st.integers(0, 63), min_size=8, max_size=30),
                                      "mutation": mut})
        ver = st.fixed_dictionaries({"vdesign": gen_verilog.designs(), "copy": st.just("verilog-roundtrip"),
                                     "mutation": mut})
        return st.one_of(api, api, edif, ver)

    # ---- directed scenes past the sizes random designs reach: a net with hundreds of pins, sibling
    # names that differ only beyond the 255th character
    def fixed_cases(self, tier):
        out = []
        for pins in (16, 257, 300):
            for copy in ("rebuild", "clone"):
                for mutate in (False, True):
                    out.append({"scene": ["bignet", pins, copy, mutate]})
        for n in (40, 255, 256, 300):
            for copy in ("rebuild", "clone"):
                for mutate in (False, True):
                    out.append({"scene": ["longnames", n, copy, mutate]})
        return out

    @staticmethod
    def build_scene(kind, n):
        import spydrnet as sdn

        nl = sdn.Netlist(name="n")
        L = nl.create_library(name="work")
        leaf = L.create_definition(name="leaf")
        lp = leaf.create_port(name="i", pins=1, direction=sdn.IN)
        T = L.create_definition(name="top")
        a = T.create_cable(name="a", wires=1)
        b = T.create_cable(name="b", wires=1)
        if kind == "bignet":
            insts = [T.create_child(name="u%03d" % k, reference=leaf) for k in range(n)]
            for I in insts:
                a.wires[0].connect_pin(I.pins[lp.pins[0]])
            spare = T.create_child(name="spare", reference=leaf)
            b.wires[0].connect_pin(spare.pins[lp.pins[0]])
        else:
            base = "P" * (n - 1)
            x = T.create_child(name=base + "a", reference=leaf)
            y = T.create_child(name=base + "b", reference=leaf)
            a.wires[0].connect_pin(x.pins[lp.pins[0]])
            b.wires[0].connect_pin(y.pins[lp.pins[0]])
        nl.set_top_instance(T, "top_i")
        return nl

    def run_scene(self, res, scene):
        import spydrnet as sdn

        kind, n, copy, mutate = scene
        N = self.build_scene(kind, n)
        M = N.clone() if copy == "clone" else self.build_scene(kind, n)
        res.label("scene-" + kind, "copy-" + copy)
        res.nontrivial = True
        if mutate:
            T = M.top_instance.reference
            a, b = next(T.get_cables("a")).wires[0], next(T.get_cables("b")).wires[0]
            if kind == "bignet":
                # one of the many pins goes to the other net
                p = list(a.pins)[len(a.pins) // 2]
                a.disconnect_pin(p)
                b.connect_pin(p)
            else:
                # the two long-named siblings swap nets
                pa, pb = list(a.pins)[0], list(b.pins)[0]
                a.disconnect_pin(pa)
                b.disconnect_pin(pb)
                a.connect_pin(pb)
                b.connect_pin(pa)
        try:
            compare(N, M)
            raised = None
        except Exception as e:  # noqa
            raised = e
        if mutate and raised is None:
            res.violate("C20:difference-accepted:scene-%s" % kind, "scene %r" % (scene,))
        if not mutate and raised is not None:
            res.violate("C20:equal-copy-rejected:scene-%s:%s" % (kind, type(raised).__name__),
                        "scene %r: %r" % (scene, raised))
        return res

    def run(self, case):
        res = Result()
        if "scene" in case:
            return self.run_scene(res, case["scene"])
        if case["copy"] in ("edif-roundtrip", "verilog-roundtrip"):
            pair = self.roundtrip_pair(res, case)
            if pair is None:
                return res
            N, M = pair
        else:
            N = gen_ir.build(case["design"]).netlist
        if case["copy"] in ("edif-roundtrip", "verilog-roundtrip"):
            pass
        elif case["copy"] == "clone":
            try:
                M = N.clone()
            except Exception as e:  # noqa (C07's business)
                res.label("clone-raised")
                return res
        else:
            import copy
            # an own copy of the recipe: the builder stores the recipe's data values, and the two
            # netlists must not share them
            M = gen_ir.build(copy.deepcopy(case["design"])).netlist
        res.label("copy-" + case["copy"])
        try:
            compare(N, M)
        except Exception as e:  # noqa
            res.violate("C20:equal-copy-rejected:%s:%s" % (case["copy"], type(e).__name__), repr(e)[:300])
            return res
        m = case["mutation"]
        self._copy = case["copy"]
        applied = self.mutate(M, m)
        if not applied:
            res.label("mutation-not-applicable")
            return res
        res.label("mutation-" + m["kind"])
        rich = any(sum(1 for op in I.pins.values() if op.wire is not None) >= 2
                   for L in N.libraries for D in L.definitions for I in D.children)
        res.nontrivial = rich
        try:
            compare(N, M)
        except Exception:  # noqa  any exception = difference reported
            return res
        res.violate("C20:difference-accepted:%s" % m["kind"], applied)
        return res

    def roundtrip_pair(self, res, case):
        """N = a reader-produced netlist, M = parse(compose(N)) in the same format"""
        import os
        import tempfile

        import spydrnet as sdn
        from vf import gen_edif, gen_verilog
        from vf.props.c05 import parse_text as parse_edif
        from vf.props.c06 import parse_text as parse_verilog

        try:
            if case["copy"] == "edif-roundtrip":
                B = gen_ir.build(case["design"])
                text, _, _ = gen_edif.render(model.canon(B.netlist), case["stream"])
                N = parse_edif(text)
                ext = ".edf"
            else:
                d = dict(case["vdesign"])
                if not gen_verilog.in_domain(d) or any(not P["declared"] for P in d["prims"]):
                    # an inferred black box changes on write (undefined -> inout, documented): the
                    # comparer is only claimed for faithful copies
                    res.label("out-of-domain")
                    return None
                text, _, _ = gen_verilog.text_of(d)
                N = parse_verilog(text)
                ext = ".v"
            with tempfile.TemporaryDirectory() as td:
                p = os.path.join(td, "c" + ext)
                sdn.compose(N, p)
                M = sdn.parse(p)
        except Exception:  # noqa readers/writers are judged by C03-C06
            sdn.namespace_manager.default = "DEFAULT"
            res.label("roundtrip-raised")
            return None
        return N, M

    # -------------------------------------------------------------------------------------------
    def mutate(self, M, m):
        """apply one single mutation to the copy; returns a description or None if not applicable"""
        import spydrnet as sdn

        kind, i, j, k = m["kind"], m["i"], m["j"], m["k"]
        defs = [D for L in M.libraries for D in L.definitions]

        def pick(lst, n):
            return lst[n % len(lst)] if lst else None

        ports = [P for D in defs for P in D.ports]
        cables = [C for D in defs for C in D.cables]
        insts = [I for D in defs for I in D.children]
        if kind == "port-direction":
            P = pick(ports, i)
            if P is None:
                return None
            ds = [d for d in (sdn.IN, sdn.OUT, sdn.INOUT, sdn.UNDEFINED) if d is not P.direction]
            P.direction = ds[j % len(ds)]
            return "port %s direction" % P.name
        if kind == "port-width":
            P = pick(ports, i)
            if P is None:
                return None
            if j % 2 and len(P.pins) > 1:
                P.remove_pin(P.pins[-1])
            else:
                P.create_pin()
            return "port %s width" % P.name
        if kind == "port-arrayness":
            P = pick([x for x in ports if len(x.pins) == 1], i)
            if P is None:
                return None
            P.is_scalar = not P.is_scalar
            return "port %s array-ness" % P.name
        if kind == "cable-width":
            C = pick(cables, i)
            if C is None:
                return None
            if j % 2 and len(C.wires) > 1:
                C.remove_wire(C.wires[-1])
            else:
                C.create_wire()
            return "cable %s width" % C.name
        if kind.startswith("conn-") or kind == "inner-conn-to-other-bit":
            wires = [w for C in cables for w in C.wires]
            if kind == "inner-conn-to-other-bit":
                cand = [(w, p) for w in wires for p in w.pins if not model.is_outer(p)]
                for n in range(len(cand)):
                    w, p = cand[(i + n) % len(cand)]
                    others = [q for q in p.port.pins if q is not p and q.wire is None]
                    if others:
                        q = others[j % len(others)]
                        pos = list(w.pins).index(p)
                        w.disconnect_pin(p)
                        w.connect_pin(q, pos)
                        return "port pin moved to another bit of %s" % p.port.name
                return None
            cand = [(w, p) for w in wires for p in w.pins if model.is_outer(p)]
            for n in range(len(cand)):
                w, p = cand[(i + n) % len(cand)]
                I = p.instance
                D = w.cable.definition
                pos = list(w.pins).index(p)
                if kind == "conn-to-other-instance":
                    others = [op for I2 in D.children if I2 is not I for op in I2.pins.values()
                              if op.wire is None]
                elif kind == "conn-to-other-port-same-instance":
                    others = [op for ip, op in I.pins.items() if op.wire is None
                              and ip.port is not p.inner_pin.port]
                elif kind == "conn-to-other-bit-same-port":
                    others = [op for ip, op in I.pins.items() if op.wire is None
                              and ip.port is p.inner_pin.port and ip is not p.inner_pin]
                else:  # other wire of the same cable, appended
                    ws = [x for x in w.cable.wires if x is not w]
                    if not ws:
                        continue
                    w2 = ws[j % len(ws)]
                    w.disconnect_pin(p)
                    w2.connect_pin(p)
                    return "pin of %s moved from one bit of cable %s to another" % (I.name, w.cable.name)
                if others:
                    q = others[j % len(others)]
                    w.disconnect_pin(p)
                    w.connect_pin(q, pos)
                    return "%s: %s.%s -> %s.%s" % (kind, I.name, p.inner_pin.port.name,
                                                   q.instance.name, q.inner_pin.port.name)
            return None
        if kind == "instance-repoint":
            for n in range(len(insts)):
                I = insts[(i + n) % len(insts)]
                if I.reference is None:
                    continue
                shape = [len(P.pins) for P in I.reference.ports]
                cand = [D for D in defs if D is not I.reference and D.name != I.reference.name
                        and [len(P.pins) for P in D.ports] == shape and D is not I.parent]
                if cand:
                    I.reference = cand[j % len(cand)]
                    return "instance %s re-pointed" % I.name
            return None
        if kind == "instance-reference-dropped":
            # an unwired instance (or the standalone top instance) loses its reference
            pool = [I for I in insts if I.reference is not None
                    and all(op.wire is None for op in I.pins.values())]
            top = M.top_instance
            if top is not None and top.parent is None and top.reference is not None and j % 3 == 0:
                pool = [top]
            I = pick(pool, i)
            if I is None:
                return None
            I.reference = None
            return "instance %s lost its reference" % I.name
        if kind == "instance-reference-gained":
            pool = [I for I in insts if I.reference is None]
            I = pick(pool, i)
            if I is None:
                return None
            cand = [D for D in defs if D is not I.parent and not D.children]
            D = pick(cand, j)
            if D is None:
                return None
            I.reference = D
            return "instance %s gained a reference" % I.name
        if kind == "instance-repoint-same-name-other-library":
            pool = insts + ([M.top_instance] if M.top_instance is not None else [])
            for n in range(len(pool)):
                I = pool[(i + n) % len(pool)]
                if I.reference is None:
                    continue
                shape = [len(P.pins) for P in I.reference.ports]
                cand = [D for D in defs if D is not I.reference and D.name == I.reference.name
                        and D.library is not I.reference.library
                        and [len(P.pins) for P in D.ports] == shape and D is not I.parent]
                if cand:
                    I.reference = cand[j % len(cand)]
                    return "instance %s re-pointed to the same-named definition of another library" % I.name
            return None
        if kind in ("property-value", "property-removed"):
            cand = [I for I in insts if "EDIF.properties" in I and len(I["EDIF.properties"])]
            I = pick(cand, i)
            if I is None:
                return None
            if (k % 2 or getattr(self, "_copy", "") == "clone") and kind == "property-value":
                # edit the stored record in place (a copy that still shares nested data with the
                # original would change both sides and hide the difference)
                p = I["EDIF.properties"][j % len(I["EDIF.properties"])]
                p["value"] = "changed" if p["value"] != "changed" else "changed2"
                return "%s of %s (in place)" % (kind, I.name)
            props = [dict(p) for p in I["EDIF.properties"]]
            if kind == "property-value":
                p = props[j % len(props)]
                p["value"] = "changed" if p["value"] != "changed" else "changed2"
            else:
                del props[j % len(props)]
            I["EDIF.properties"] = props
            return "%s of %s" % (kind, I.name)
        if kind == "drop-library":
            cand = [L for L in M.libraries if all(len(D.references) == 0 for D in L.definitions)]
            L = pick(cand, i)
            if L is None:
                return None
            M.remove_library(L)
            return "library dropped"
        if kind == "drop-definition":
            top = M.top_instance
            cand = [D for D in defs if len(D.references) == 0]
            D = pick(cand, i)
            if D is None:
                return None
            D.library.remove_definition(D)
            return "definition %s dropped" % D.name
        if kind == "drop-port":
            P = pick(ports, i)
            if P is None:
                return None
            P.definition.remove_port(P)
            return "port %s dropped" % P.name
        if kind == "drop-cable":
            C = pick(cables, i)
            if C is None:
                return None
            for w in list(C.wires):
                for p in list(w.pins):
                    w.disconnect_pin(p)
            C.definition.remove_cable(C)
            return "cable %s dropped" % C.name
        if kind == "drop-instance":
            I = pick(insts, i)
            if I is None:
                return None
            for op in I.pins.values():
                if op.wire is not None:
                    op.wire.disconnect_pin(op)
            I.parent.remove_child(I)
            return "instance %s dropped" % I.name
        if kind == "add-library":
            M.create_library(name="added_lib")
            return "library added"
        if kind == "add-definition":
            pick(list(M.libraries), i).create_definition(name="added_def")
            return "definition added"
        D = pick(defs, i)
        if D is None:
            return None
        if kind == "add-port":
            D.create_port(name="added_port", pins=1, direction=sdn.IN)
            return "port added to %s" % D.name
        if kind == "add-cable":
            D.create_cable(name="added_cable", wires=1)
            return "cable added to %s" % D.name
        if kind == "add-instance":
            leafs = [x for x in defs if model.is_leaf_def(x) and x is not D]
            D.create_child(name="added_inst", reference=pick(leafs, j))
            return "instance added to %s" % D.name
        return None


PROP = C20()
