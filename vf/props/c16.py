"""C16 - writing a netlist does not change it and is repeatable"""
import gc
import os
import re
import tempfile

from hypothesis import strategies as st

from vf import gen_eblif, gen_edif, gen_ir, gen_verilog, model
from vf.core import Prop, Result, canonical_json as core_json
from vf.props.c03 import API_NAMES
from vf.props.c05 import NAMES
from vf.props.c06 import parse_text

EDIF_ADDED = ("EDIF.identifier", "EDIF.rename")


def raw_slots(nl):
    """primitive values of every slot of every element, read without going through any property
    (a getter or a writer that quietly rewrites a stored flag shows here)"""
    import enum

    out = {}

    def add(e):
        vals = []
        for klass in type(e).__mro__:
            for slot in getattr(klass, "__slots__", ()):
                if slot.startswith("__"):
                    continue
                v = getattr(e, slot, None)
                if isinstance(v, (bool, int, str, type(None), enum.Enum)):
                    vals.append((slot, str(v)))
        out[str(id(e))] = sorted(vals)

    add(nl)
    if nl.top_instance is not None:
        add(nl.top_instance)
    for L in nl.libraries:
        add(L)
        for D in L.definitions:
            add(D)
            for P in D.ports:
                add(P)
                for x in P.pins:
                    add(x)
            for C in D.cables:
                add(C)
                for w in C.wires:
                    add(w)
            for I in D.children:
                add(I)
                for op in I.pins.values():
                    add(op)
    return out


def snapshot(nl):
    raw = raw_slots(nl)   # first: model.ident goes through the public getters
    s = model.ident(nl)
    s["raw"] = raw
    return s


def normalise_edif(before, after):
    """apply the documented EDIF side effects to `after` so that it can be compared with `before`:
    libraries and cells may be permuted, generated identifiers recorded, an absent netlist name
    defaulted"""
    import copy

    a = copy.deepcopy(after)
    keys_before = {}

    def walk(node, fn):
        if isinstance(node, dict):
            if "id" in node and "data" in node:
                fn(node)
            for v in node.values():
                walk(v, fn)
        elif isinstance(node, list):
            for v in node:
                walk(v, fn)

    walk(before, lambda n: keys_before.__setitem__(n["id"], set(n["data"])))
    keys_before[before["nl"]] = set(before["data"])

    def strip(n):
        kb = keys_before.get(n["id"], set())
        for k in EDIF_ADDED:
            if k in n["data"] and k not in kb:
                del n["data"][k]
    walk(a, strip)
    for k in EDIF_ADDED + (".NAME",):
        if k in a["data"] and k not in keys_before[before["nl"]]:
            del a["data"][k]
    b = copy.deepcopy(before)
    for s in (a, b):
        s["libs"].sort(key=lambda l: l["id"])
        for l in s["libs"]:
            l["defs"].sort(key=lambda d: d["id"])
    return b, a


def blank_timestamp(text):
    return re.sub(r"\(timeStamp [^)]*\)", "(timeStamp)", text)


class C16(Prop):
    ID = "C16"
    RULE = ("per format a composable netlist: EDIF - API-built recipes (scrambled order, both policies) or "
            "parsed from the independent EDIF writer's text; Verilog - parsed from the independent "
            "Verilog writer's sources; EBLIF - parsed from the independent EBLIF writer's text, optionally "
            "with EBLIF.type deleted from an instance; drawn composer options (definition_list subset, "
            "write_blackbox, defparam, write_eblif_cname); compose, run a batch of queries (get_*, "
            "get_h*, is_unique), compose again. Oracle: identity-level snapshot (structure, order, names, "
            "connectivity, bundle attributes, every data dictionary) equal before/after, modulo exactly "
            "the documented EDIF side effects (library/cell order permuted, EDIF.identifier/EDIF.rename "
            "added where absent, absent netlist name defaulted); the two texts byte-equal after blanking "
            "the timeStamp; the file read at return == the file read after gc.collect(); with full options "
            "the reader accepts it. non-trivial = netlist with >=1 connected instance pin; distinct = "
            "distinct case JSON")
    ASSUMPTIONS = ["'closed' is observed as 'complete and stable at return' (a leaked descriptor with "
                   "flushed contents would pass)"]
    N = {"quick": 4000, "thorough": 40000}
    CASE_TIMEOUT_S = 120

    def strategy(self, tier):
        ecfg_api = gen_ir.Cfg(unnamed=False, alphabet=API_NAMES, max_defs=5, max_children=4, max_width=3,
                              share=True, top="always", lib_monotone=True, reorder=True,
                              top_modes=["standalone", "definition"], data_values="edif", late=True,
                              netlist_name=True)
        ecfg_txt = gen_ir.Cfg(unnamed=False, alphabet=NAMES, max_defs=5, max_children=4, max_width=3,
                              share=True, top="always", lib_monotone=True, reorder=False,
                              top_modes=["standalone"], data_values="edif")
        stream = st.lists(st.integers(0, 63), min_size=8, max_size=30)
        edif = st.fixed_dictionaries({
            "fmt": st.just("edif"), "mode": st.sampled_from(["api-DEFAULT", "api-EDIF", "parsed"]),
            "design": gen_ir.recipes(ecfg_api), "design_txt": gen_ir.recipes(ecfg_txt), "stream": stream,
            "drop_name": st.booleans()})
        ver = st.fixed_dictionaries({
            "fmt": st.just("verilog"), "design": gen_verilog.designs(),
            "write_blackbox": st.booleans(), "defparam": st.booleans(),
            "deflist": st.lists(st.integers(0, 5), max_size=3), "drop_name": st.booleans()})
        ebl = st.fixed_dictionaries({
            "fmt": st.just("eblif"), "design": gen_eblif.designs(),
            "write_blackbox": st.booleans(), "cname": st.booleans(),
            "drop_type": st.one_of(st.none(), st.integers(0, 5)), "drop_name": st.booleans()})
        # cross-format: a hierarchical Verilog-read netlist written as EBLIF (the writer walks the
        # hierarchy and keeps per-run bookkeeping of what it has written)
        cross = st.fixed_dictionaries({
            "fmt": st.just("eblif"), "source": st.just("verilog"), "design": gen_verilog.designs(),
            "write_blackbox": st.booleans(), "cname": st.booleans(), "drop_type": st.none(),
            "drop_name": st.booleans()})
        pre = st.sampled_from(["none", "none", "none", "clone", "uniquify"])
        return st.tuples(st.one_of(edif, edif, ver, ebl, cross), pre).map(lambda t: dict(t[0], pre=t[1]))

    def run(self, case):
        import spydrnet as sdn

        res = Result()
        fmt = case["fmt"]
        res.label("format-" + fmt)
        kw = {}
        ext = {"edif": ".edf", "verilog": ".v", "eblif": ".eblif"}[fmt]
        full = True
        try:
            if fmt == "edif":
                mode = case["mode"]
                res.label("edif-" + mode)
                if mode == "parsed":
                    B = gen_ir.build(case["design_txt"])
                    text, _, _ = gen_edif.render(model.canon(B.netlist), case["stream"])
                    from vf.props.c05 import parse_text as parse_edif
                    nl = parse_edif(text)
                else:
                    nl = gen_ir.build(case["design"], policy=mode.split("-")[1]).netlist
                    sdn.namespace_manager.default = "DEFAULT"
                    if case.get("drop_name") and mode == "api-DEFAULT":
                        del nl.name
                        res.label("netlist-name-absent")
                if not model.library_deps_acyclic(nl):
                    res.label("out-of-domain")
                    return res
            elif fmt == "verilog":
                d = dict(case["design"])
                if not gen_verilog.in_domain(d):
                    res.label("out-of-domain")
                    return res
                text, _, _ = gen_verilog.text_of(d)
                nl = parse_text(text)
                names = [D.name for L in nl.libraries for D in L.definitions
                         if L.name != "SDN_VERILOG_ASSIGNMENT"]
                dl = sorted({names[i % len(names)] for i in case["deflist"]}) if names else []
                kw = {"write_blackbox": case["write_blackbox"], "defparam": case["defparam"],
                      "definition_list": dl}
                full = case["write_blackbox"] and not dl
                for k, v in (("write_blackbox", case["write_blackbox"]), ("defparam", case["defparam"]),
                             ("definition_list", bool(dl))):
                    res.label("opt-%s=%s" % (k, v))
            elif case.get("source") == "verilog":
                d = dict(case["design"])
                if not gen_verilog.in_domain(d):
                    res.label("out-of-domain")
                    return res
                nl = parse_text(gen_verilog.text_of(d)[0])
                res.label("verilog-netlist-written-as-eblif")
                kw = {"write_blackbox": case["write_blackbox"], "write_eblif_cname": case["cname"]}
                full = False
            else:
                d = dict(case["design"])
                if not gen_eblif.in_domain(d):
                    res.label("out-of-domain")
                    return res
                text, exp, _ = gen_eblif.render(d)
                if exp.get("dup_names"):
                    res.label("out-of-domain")
                    return res
                nl = parse_text(text, ".eblif")
                ch = list(nl.top_instance.reference.children)
                if case.get("drop_type") is not None and ch:
                    I = ch[case["drop_type"] % len(ch)]
                    if "EBLIF.type" in I:
                        del I["EBLIF.type"]
                        res.label("instance-without-EBLIF.type")
                kw = {"write_blackbox": case["write_blackbox"], "write_eblif_cname": case["cname"]}
                full = case["write_blackbox"] and case["cname"]
                res.label("opt-write_blackbox=%s" % case["write_blackbox"],
                          "opt-write_eblif_cname=%s" % case["cname"])
        except Exception:  # noqa the readers' own failures are decided by C05/C06/C18
            sdn.namespace_manager.default = "DEFAULT"
            res.label("input-rejected-by-reader")
            return res
        if case.get("pre") in ("clone", "uniquify") and nl.top_instance is not None:
            # the netlist that is written may be the product of another feature
            try:
                if case["pre"] == "clone":
                    nl = nl.clone()
                else:
                    import spydrnet.uniquify as U
                    U.MOD_NAME_UID = 0
                    U.uniquify(nl)
                res.label("netlist-is-product-of-" + case["pre"])
            except Exception:  # noqa (C07/C08's business)
                res.label("pre-transform-raised")
                return res
        if fmt != "edif" and case.get("drop_name") and nl.name is not None:
            # only the EDIF writer is documented to default an absent netlist name
            del nl.name
            res.label("netlist-name-absent")
        res.nontrivial = any(op.wire is not None for L in nl.libraries for D in L.definitions
                             for I in D.children for op in I.pins.values())
        before = snapshot(nl)
        with tempfile.TemporaryDirectory() as td:
            p1, p2 = os.path.join(td, "a" + ext), os.path.join(td, "b" + ext)
            via_method = len(core_json(case)) % 2 == 1   # Netlist.compose is the other entry point
            if via_method:
                res.label("entry-Netlist.compose")
            try:
                if via_method:
                    nl.compose(p1, **kw)
                else:
                    sdn.compose(nl, p1, **kw)
            except Exception as e:  # noqa whether compose may refuse is decided by C03/C04/C18
                res.label("compose-raised")
                return res
            t_now = open(p1).read()
            gc.collect()
            t_later = open(p1).read()
            if t_now != t_later:
                res.violate("C16:%s:file-incomplete-at-return" % fmt, "%d characters at return, %d after "
                            "gc.collect()" % (len(t_now), len(t_later)))
                return res
            mid = snapshot(nl)
            self.compare(res, fmt, before, mid, "first-compose")
            # queries in between
            try:
                list(sdn.get_instances(nl))
                list(sdn.get_hinstances(nl, recursive=True))
                list(sdn.get_hwires(nl, recursive=True))
                list(sdn.get_cables(nl, "*"))
                nl.is_unique()
                for h in sdn.get_hinstances(nl):
                    h.is_unique
            except Exception:  # noqa (C11/C13's business)
                res.label("query-raised")
            try:
                if via_method:
                    nl.compose(p2, **kw)
                else:
                    sdn.compose(nl, p2, **kw)
            except Exception as e:  # noqa
                res.violate("C16:%s:second-compose-raises:%s" % (fmt, type(e).__name__), repr(e)[:300])
                return res
            t2 = open(p2).read()
            a, b = (blank_timestamp(t_now), blank_timestamp(t2)) if fmt == "edif" else (t_now, t2)
            if a != b:
                la, lb = a.splitlines(), b.splitlines()
                k = next((i for i, (x, y) in enumerate(zip(la, lb)) if x != y), min(len(la), len(lb)))
                res.violate("C16:%s:second-text-differs" % fmt, "line %d: %r vs %r" % (
                    k, la[k][:120] if k < len(la) else None, lb[k][:120] if k < len(lb) else None))
            self.compare(res, fmt, mid, snapshot(nl), "second-compose")
            if full and not res.violations:
                try:
                    sdn.parse(p1)
                except Exception as e:  # noqa
                    sdn.namespace_manager.default = "DEFAULT"
                    res.label("written-file-rejected-by-reader(decided by C03/C04/C18)")
        return res

    def compare(self, res, fmt, before, after, which):
        if fmt == "edif" and which == "first-compose":
            b, a = normalise_edif(before, after)
            # the new order must be a permutation: same ids
        else:
            b, a = before, after
        if a != b:
            d = model.diff(b, a)
            what = "data" if any(".data" in x for x in d) else (
                "order" if any("length" not in x and ".id" in x for x in d) else "structure")
            res.violate("C16:%s:netlist-changed-by-%s:%s" % (fmt, which, what), "; ".join(d))


PROP = C16()
