"""C05 - the EDIF reader builds exactly the design the file describes"""
import glob
import io
import os
import tempfile

from hypothesis import strategies as st

from vf import gen_edif, gen_ir, model
from vf.core import Prop, Result

NAMES = ["a", "b", "c", "d", "clk", "data", "q", "sel", "Top", "U1", "n_1", "x y", "a.b", "3d", "w/e",
         "net$1", "Q", "B", "row[0].q", "row[1].q", "m[2]x", "_u", "$v", "[1]",
         "L" * 255, "k" + "9" * 253]


def parse_text(text):
    import spydrnet as sdn

    with tempfile.TemporaryDirectory() as td:
        path = os.path.join(td, "t.edf")
        with open(path, "w") as fh:
            fh.write(text)
        return sdn.parse(path)


class C05(Prop):
    ID = "C05"
    RULE = ("abstract designs (gen_ir recipes restricted to the EDIF-expressible subset: all named, "
            "acyclic library order, bus ports and bus nets, multi-library references, string/integer/"
            "boolean instance properties; names include characters that are illegal in identifiers) "
            "built through the API, canonicalised by the reference model and rendered to EDIF text by the "
            "independent writer vf/gen_edif.py with drawn syntactic variation (keyword and identifier "
            "case, rename vs plain names, bit nets in any order / interleaved / with unmentioned bits, "
            "port ranges in original names, libraryRef present or not, comments, external libraries, "
            "status block); oracle: structure read back from the parsed netlist == expected structure of "
            "the writer (names, identifiers, directions, widths, array-ness, base indices, per-bit "
            "ordered endpoints, instance targets and typed properties, top), wf-strict. Plus the bundled "
            "examples (<=10 kB quick, all thorough) checked for wf and for agreement with an independent "
            "s-expression reading of the file (cell/port/instance/net counts). non-trivial = >=1 bus given "
            "out of order or with a gap, or >=1 case-varied reference; distinct = distinct case JSON")
    ASSUMPTIONS = ["names contain no double quote/newline/percent; scalar nets are not named like bus bits",
                   "cells are declared before use (the reader resolves references while reading)"]
    N = {"quick": 2400, "thorough": 30000}
    CASE_TIMEOUT_S = 60

    def cfg(self, tier):
        big = tier == "thorough"
        return gen_ir.Cfg(unnamed=False, alphabet=NAMES, max_defs=7 if big else 5, max_children=4,
                          max_width=4 if big else 3, share=True, top="always", lib_monotone=True,
                          reorder=False, top_modes=["standalone"], data_values="edif",
                          undefined_dir=True, one_wide_arrays=True,
                          bundle_alphabet=[n for n in NAMES if len(n) < 200])

    def strategy(self, tier):
        return st.fixed_dictionaries({"design": gen_ir.recipes(self.cfg(tier)),
                                      "stream": st.lists(st.integers(0, 63), min_size=8, max_size=40)})

    def fixed_cases(self, tier):
        limit = 10000 if tier == "quick" else 10 ** 9
        repo = os.environ.get("VERIF_REPO", "/repo")
        files = sorted(glob.glob(os.path.join(repo, "example_netlists", "EDIF_netlists", "*.edf.zip")))
        return [{"example": os.path.basename(f)} for f in files if 200 < os.path.getsize(f) <= limit]

    def run(self, case):
        if "example" in case:
            return self.run_example(case)
        res = Result()
        B = gen_ir.build(case["design"])
        c = model.canon(B.netlist)
        text, expected, info = gen_edif.render(c, case["stream"])
        if info["bus_out_of_order"] or info["bus_gap"] or info["case_varied_refs"]:
            res.nontrivial = True
        for k in ("bus_out_of_order", "bus_gap", "case_varied_refs", "renames"):
            if info[k]:
                res.label(k)
        try:
            nl = parse_text(text)
        except Exception as e:  # noqa
            where = "design" if "design" in repr(e).lower() else "body"
            res.violate("C05:reader-rejects-valid-text:%s" % type(e).__name__, "%r\n%s" % (e, text[:1500]))
            return res
        got = gen_edif.observed(nl)
        if got != expected:
            d = model.diff(expected, got)
            res.violate("C05:structure-differs:%s" % classify(d[0] if d else ""), "; ".join(d))
        for code, detail in model.wf(nl, strict=True):
            res.violate("C05:" + code, detail)
        return res

    def run_example(self, case):
        import spydrnet as sdn
        import zipfile

        res = Result()
        repo = os.environ.get("VERIF_REPO", "/repo")
        path = os.path.join(repo, "example_netlists", "EDIF_netlists", case["example"])
        res.label("bundled-example")
        try:
            nl = sdn.parse(path)
        except Exception as e:  # noqa
            res.violate("C05:example-rejected:%s" % case["example"], repr(e))
            return res
        res.nontrivial = True
        for code, detail in model.wf(nl, strict=True):
            res.violate("C05:example:" + code, "%s: %s" % (case["example"], detail))
        z = zipfile.ZipFile(path)
        text = z.read(z.namelist()[0]).decode("utf-8", "replace")
        counts = sexp_counts(text)
        got = {"cell": sum(len(L.definitions) for L in nl.libraries),
               "instance": sum(len(D.children) for L in nl.libraries for D in L.definitions),
               "port": sum(len(D.ports) for L in nl.libraries for D in L.definitions),
               "portref": sum(len(w.pins) for L in nl.libraries for D in L.definitions for C in D.cables
                              for w in C.wires),
               "library": len(nl.libraries)}
        for k, v in got.items():
            if counts.get(k, 0) != v:
                res.violate("C05:example-count-differs:%s" % k, "%s: file declares %r, netlist has %r" % (
                    case["example"], counts.get(k), v))
        # per cell: expected number of cables from the bus-bit naming convention, read independently
        want = cables_per_cell(text)
        have = [len(D.cables) for L in nl.libraries for D in L.definitions]
        if len(want) == len(have):
            have = [h if w is not None else None for w, h in zip(want, have)]
        if want != have:
            k = next((i for i, (a, b) in enumerate(zip(want, have)) if a != b), None)
            res.violate("C05:example-cable-count-differs", "%s: cell #%s: file implies %s cables, netlist "
                        "has %s" % (case["example"], k, want[k] if k is not None else len(want),
                                    have[k] if k is not None else len(have)))
        # per cell: every net as the set of its endpoints (instance identifier, port identifier,
        # member index), read independently from the s-expressions
        want_n = nets_per_cell(text)
        have_n = []
        for L in nl.libraries:
            for D in L.definitions:
                nets = []
                for C in D.cables:
                    for w in C.wires:
                        ends = []
                        for p in w.pins:
                            ip = p.inner_pin if isinstance(p, sdn.OuterPin) else p
                            ends.append(((p.instance["EDIF.identifier"].lower()
                                          if isinstance(p, sdn.OuterPin) else ""),
                                         ip.port["EDIF.identifier"].lower(), ip.port.pins.index(ip)))
                        if ends:
                            nets.append(sorted(ends))
                have_n.append(sorted(nets))
        if len(want) == len(want_n) == len(have_n):
            # cells in which a scalar net shares its identifier with a bus base are outside the naming
            # convention (see cables_per_cell): not compared
            for i, w in enumerate(want):
                if w is None:
                    want_n[i] = have_n[i] = None
        if want_n != have_n:
            k = next((i for i, (a, b) in enumerate(zip(want_n, have_n)) if a != b), None)
            det = ""
            if k is not None:
                only_w = [n for n in want_n[k] if n not in have_n[k]][:2]
                only_h = [n for n in have_n[k] if n not in want_n[k]][:2]
                det = "only in file %r; only in netlist %r" % (only_w, only_h)
            res.violate("C05:example-nets-differ", "%s: cell #%s: %s" % (case["example"], k, det))
        return res


def nets_per_cell(text):
    """for every cell in file order: sorted list of nets, each the sorted list of its endpoints
    (instanceRef identifier or '', port identifier, member index or 0), all lower-cased"""
    out = []

    def kw(x):
        return isinstance(x, list) and x and isinstance(x[0], str) and x[0].lower()

    def ident(x):
        if isinstance(x, list) and kw(x) == "rename":
            return x[1].lower()
        return x.lower()

    def walk(node):
        if not isinstance(node, list):
            return
        if kw(node) == "cell":
            nets = []
            for view in node:
                if kw(view) != "view":
                    continue
                for cont in view:
                    if kw(cont) != "contents":
                        continue
                    for net in cont:
                        if kw(net) != "net":
                            continue
                        ends = []
                        for j in net:
                            if kw(j) != "joined":
                                continue
                            for pr in j[1:]:
                                if kw(pr) != "portref":
                                    continue
                                tgt = pr[1]
                                if isinstance(tgt, list) and kw(tgt) == "member":
                                    port, idx = ident(tgt[1]), int(tgt[2])
                                else:
                                    port, idx = ident(tgt), 0
                                inst = ""
                                for x in pr[2:]:
                                    if kw(x) == "instanceref":
                                        inst = ident(x[1])
                                ends.append((inst, port, idx))
                        if ends:
                            nets.append(sorted(ends))
            out.append(sorted(nets))
            return
        for x in node:
            walk(x)
    walk(sexp(text))
    return out


def classify(d):
    for key in ("top", "wires", "props", "ports", "cables", "children", "name", "id"):
        if key in d:
            return key
    return "other"


def sexp_counts(text):
    """independent s-expression reading: counts of constructs by keyword (strings skipped)"""
    counts = {}
    i, n = 0, len(text)
    depth_kw = []
    while i < n:
        ch = text[i]
        if ch == '"':
            j = text.find('"', i + 1)
            i = (j if j >= 0 else n) + 1
            continue
        if ch == "(":
            j = i + 1
            while j < n and text[j] in " \t\r\n":
                j += 1
            k = j
            while k < n and text[k] not in " \t\r\n()\"":
                k += 1
            kw = text[j:k].lower()
            counts[kw] = counts.get(kw, 0) + 1
            i = k
            continue
        i += 1
    counts["library"] = counts.get("library", 0) + counts.get("external", 0)
    return counts


def sexp(text):
    """tiny independent s-expression reader -> nested lists; strings keep their quotes"""
    stack = [[]]
    i, n = 0, len(text)
    while i < n:
        ch = text[i]
        if ch == "(":
            new = []
            stack[-1].append(new)
            stack.append(new)
            i += 1
        elif ch == ")":
            if len(stack) > 1:
                stack.pop()
            i += 1
        elif ch == '"':
            j = text.find('"', i + 1)
            j = n - 1 if j < 0 else j
            stack[-1].append(text[i:j + 1])
            i = j + 1
        elif ch in " \t\r\n":
            i += 1
        else:
            j = i
            while j < n and text[j] not in " \t\r\n()\"":
                j += 1
            stack[-1].append(text[i:j])
            i = j
    return stack[0]


def cables_per_cell(text):
    """for every cell in file order: number of cables implied by the net names (bit nets
    name[i] / id_i_ of one base name form one cable; a second scalar net of a taken name is merged)"""
    import re

    out = []

    def kw(x):
        return isinstance(x, list) and x and isinstance(x[0], str) and x[0].lower()

    def walk(node):
        if not isinstance(node, list):
            return
        if kw(node) == "cell":
            keys = set()
            scalar_ids, bus_ids = set(), set()
            for view in node:
                if kw(view) == "view":
                    for cont in view:
                        if kw(cont) == "contents":
                            for net in cont:
                                if kw(net) == "net":
                                    nd = net[1]
                                    if isinstance(nd, list) and kw(nd) == "rename":
                                        ident, name = nd[1], nd[2][1:-1]
                                    else:
                                        ident = name = nd
                                    m = re.match(r"(.*)\[(\d+)\]\Z", name, re.S)
                                    mi = re.match(r"(.*)_(\d+)_\Z", ident, re.S)
                                    if m and mi and not (name.startswith("\\") and not name.rstrip().count(" ")):
                                        keys.add(("bus", m.group(1)))
                                        bus_ids.add(mi.group(1).lower())
                                    else:
                                        keys.add(("net", name))
                                        scalar_ids.add(ident.lower())
            # a scalar net that shares its identifier with a bus base is outside the convention
            out.append(None if scalar_ids & bus_ids else len(keys))
            return
        for x in node:
            walk(x)
    walk(sexp(text))
    return out


PROP = C05()
