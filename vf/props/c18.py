"""C18 - EBLIF files are read faithfully and survive write-then-read"""
import glob
import os
import tempfile

from hypothesis import strategies as st

from vf import gen_eblif, model
from vf.core import Prop, Result
from vf.props.c06 import parse_text


def cmp_views(res, prefix, want, got, models=True, suffix=""):
    if want["top"] != got["top"]:
        res.violate("%s:top-differs" % prefix, "%r vs %r" % (want["top"], got["top"]))
    if models and want["models"] != got["models"]:
        d = model.diff(want["models"], got["models"])
        what = "dir" if any(".dir" in x for x in d) else ("lib" if any(".lib" in x for x in d) else (
            "leaf" if any(".leaf" in x for x in d) else "ports"))
        res.violate("%s:models-differ:%s" % (prefix, what), "; ".join(d))
    if want["insts"] != got["insts"]:
        d = model.diff(want["insts"], got["insts"])
        what = "data" if any(".data" in x for x in d) else (
            "type" if any(".type" in x for x in d) else ("ref" if any(".ref" in x for x in d) else "set"))
        res.violate("%s:instances-differ:%s" % (prefix, what), "; ".join(d))
    if want["nets"] != got["nets"]:
        a = [x for x in want["nets"] if x not in got["nets"]]
        b = [x for x in got["nets"] if x not in want["nets"]]
        res.violate("%s:nets-differ%s" % (prefix, suffix), "only expected: %r ; only observed: %r" % (
            a[:2], b[:2]))


class C18(Prop):
    ID = "C18"
    RULE = ("abstract flat designs drawn by Hypothesis and rendered by the independent writer "
            "vf/gen_eblif.py: .inputs/.outputs with scalar and name[i] bits, .subckt/.gate with "
            "formal=actual (bus-indexed formals, unconn actuals, any pin order), .names with cover lines, "
            ".latch (2- or 5-token form), .cname/.attr/.param, .conn, backslash continuations, # comments, "
            "black-box .model ... .blackbox blocks declared or not, one model used several times with "
            "different pin subsets; oracle: view of the parsed netlist (instances: reference model, "
            "EBLIF.type, cname/attr/param/covers/unconn data; model ports with direction/width; black "
            "boxes as leaf definitions in hdi_primitives; partition of pins into nets with .conn merging) "
            "== expected view, wf-strict; then compose and parse again: same instances, types, data and "
            "nets. Plus the bundled .eblif examples (wf + round trip). non-trivial = >=1 bus-indexed net, "
            ">=1 .conn or unconn, >=1 model used twice (any two of the three); distinct = distinct case JSON")
    ASSUMPTIONS = ["every .subckt/.gate carries a .cname (instance names by net convention are not part "
                   "of the property); .latch statements of one file use one form",
                   "the first model of the file is the top; black boxes are declared after it"]
    N = {"quick": 6400, "thorough": 80000}
    CASE_TIMEOUT_S = 60

    def strategy(self, tier):
        return gen_eblif.designs(max_stmts=8 if tier == "thorough" else 6)

    def fixed_cases(self, tier):
        repo = os.environ.get("VERIF_REPO", "/repo")
        files = sorted(glob.glob(os.path.join(repo, "example_netlists", "eblif_netlists", "*.eblif.zip")))
        return [{"example": os.path.basename(f)} for f in files]

    def run(self, case):
        import spydrnet as sdn

        res = Result()
        if "example" in case:
            repo = os.environ.get("VERIF_REPO", "/repo")
            res.label("bundled-example")
            try:
                nl = sdn.parse(os.path.join(repo, "example_netlists", "eblif_netlists", case["example"]))
            except Exception as e:  # noqa
                res.violate("C18:example-rejected", "%s: %r" % (case["example"], e))
                return res
            res.nontrivial = True
            tag = "C18:example"
        else:
            d = dict(case)
            if not gen_eblif.in_domain(d):
                res.label("out-of-domain(shrunk)")
                return res
            text, expected, info = gen_eblif.render(d)
            if expected.get("dup_names"):
                res.label("instance-names-collide(out of domain)")
                return res
            k = (1 if info["bus_net"] else 0) + (1 if info["conn"] or info["unconn"] else 0) + \
                (1 if info["model_used_twice"] else 0)
            res.nontrivial = k >= 2
            for kk, v in info.items():
                if v:
                    res.label(kk)
            has_conn = any(s["k"] == "conn" for s in d["stmts"])
            try:
                nl = parse_text(text, ".eblif")
            except Exception as e:  # noqa
                if d.get("conn_general") and has_conn and "naming conflict" in str(e):
                    # same root cause as the recorded .conn finding: every .conn creates a new cable
                    # named after its operands, a repeated pair collides
                    res.violate("C18:read:nets-differ:conn-general", "%r\n%s" % (e, text[:800]))
                    return res
                res.violate("C18:reader-rejects-valid-text:%s" % type(e).__name__, "%r\n%s" % (e, text[:1200]))
                return res
            got = gen_eblif.view(nl)
            cmp_views(res, "C18:read", expected, got,
                      suffix=":conn-general" if d.get("conn_general") and has_conn else "")
            if res.violations:
                sig, det = res.violations[0]
                res.violations[0] = (sig, det + "\n" + text[:1500])
            tag = "C18"
        for code, detail in model.wf(nl, strict=True):
            res.violate("%s:%s" % (tag, code), detail)
        if res.violations:
            return res
        before = gen_eblif.view(nl)
        with tempfile.TemporaryDirectory() as td:
            path = os.path.join(td, "o.eblif")
            try:
                sdn.compose(nl, path)
            except Exception as e:  # noqa
                res.violate("%s:compose-raises:%s" % (tag, type(e).__name__), repr(e)[:300])
                return res
            text2 = open(path).read()
            try:
                nl2 = sdn.parse(path)
            except Exception as e:  # noqa
                res.violate("%s:reader-rejects-written-text:%s" % (tag, type(e).__name__),
                            "%r\n%s" % (e, text2[:1200]))
                return res
        after = gen_eblif.view(nl2)
        for v in (before, after):
            for i in v["insts"].values():
                i["data"].pop("cname", None)  # the writer adds .cname <instance name> to every instance
                i["data"].pop("unconn", None)  # and formal=unconn for every unconnected pin
        conn_sfx = ":after-conn" if "example" not in case and any(
            s["k"] == "conn" for s in case["stmts"]) else ""
        cmp_views(res, tag + ":roundtrip", before, after, models=False, suffix=conn_sfx)
        # the top model's ports (direction, width) survive too (black-box models may legitimately be
        # re-declared with directions the source never gave, so only the top is compared)
        tb = before["models"].get(before["top"], {}).get("ports")
        ta = after["models"].get(after["top"], {}).get("ports")
        if tb != ta and not res.violations:
            res.violate(tag + ":roundtrip:top-ports-differ", "; ".join(model.diff(tb, ta)))
        if res.violations:
            sig, det = res.violations[0]
            res.violations[0] = (sig, det + "\n--- written:\n" + text2[:1500])
        return res


PROP = C18()
