#!/venv/bin/python
"""Coverage-guided fuzzing (atheris / libFuzzer) of the three readers with the C15 oracle inside the
target.  usage: python -m vf.fuzz_c15 <fmt> <corpus_dir> <artifact_prefix> -runs=N -seed=S ...

Input decoding: the bytes are the text of a file of format <fmt> (utf-8, undecodable bytes dropped).
The target resets the process-wide state it checks at the top of every iteration."""
import os
import sys


def main():
    fmt = sys.argv[1]
    rest = sys.argv[2:]
    import atheris

    with atheris.instrument_imports(include=["spydrnet"]):
        import spydrnet as sdn  # noqa
        import spydrnet.parsers.edif.parser  # noqa
        import spydrnet.parsers.verilog.parser  # noqa
        import spydrnet.parsers.eblif.eblif_parser  # noqa
    from vf import model
    from vf.props import c15

    ref = c15.reference_probe()
    counter = [0]

    class OracleFailure(Exception):
        pass

    def one(data):
        text = data.decode("utf-8", "ignore")
        if c15.HUGE_NUMBER.search(text):
            return  # bus indices / widths are honoured literally (time proportional to the number)
        sdn.namespace_manager.default = "DEFAULT"
        before = sdn.namespace_manager.default
        try:
            nl = c15.parse_stream(fmt, text)
        except Exception:  # noqa: clean rejection
            nl = None
        if sdn.namespace_manager.default != before:
            raise OracleFailure("policy-not-restored")
        if nl is not None:
            bad = model.wf(nl, strict=True)
            if bad:
                raise OracleFailure("ill-formed:%s" % bad[0][0])
        counter[0] += 1
        if counter[0] % 200 == 0:
            if c15.probe_now(0) != ref:
                raise OracleFailure("residue")

    atheris.Setup([sys.argv[0]] + rest, one)
    atheris.Fuzz()


if __name__ == "__main__":
    main()
