"""Independent BLIF/EBLIF writer (abstract flat design -> text + expected view) and view of a netlist."""
from hypothesis import strategies as st

from vf.gen_edif import Chooser
from vf.model import UF

MODEL_NAMES = ["top", "design", "m_flat"]
BB_NAMES = ["LUT4", "FDRE", "IBUF", "OBUF", "CARRY", "bb_x"]
PORT_NAMES = ["I", "I0", "I1", "O", "Q", "D", "C", "CE", "A", "B"]
NET_NAMES = ["n1", "n2", "n3", "net_a", "net_b", "w", "bus", "dat", "clk_i", "$auto$1", "mem[3]", "mem[2]"]
TOP_PORTS = ["a", "b", "c", "clk", "rst", "y", "z", "q", "din", "dout"]
COVERS = ["1", "0"]


@st.composite
def designs(draw, max_stmts=6):
    top_name = draw(st.sampled_from(MODEL_NAMES))
    npi = draw(st.integers(0, 3))
    npo = draw(st.integers(0, 3))
    names = draw(st.lists(st.sampled_from(TOP_PORTS), min_size=npi + npo, max_size=npi + npo, unique=True))
    def width(hi):
        # now and then past 9: two-digit bit indices in the tokens
        if draw(st.integers(0, 15)) == 0:
            return draw(st.integers(10, 13))
        return draw(st.integers(1, hi))
    inputs = [[n, width(3)] for n in names[:npi]]
    outputs = [[n, width(3)] for n in names[npi:]]
    if inputs and draw(st.integers(0, 3)) == 0:
        # a port listed under .inputs and under .outputs is an inout port
        outputs.append(list(draw(st.sampled_from(inputs))))
    nbb = draw(st.integers(1, 3))
    bbn = draw(st.lists(st.sampled_from(BB_NAMES), min_size=nbb, max_size=nbb, unique=True))
    bbs = []
    for n in bbn:
        pn = draw(st.lists(st.sampled_from(PORT_NAMES), min_size=1, max_size=4, unique=True))
        k = draw(st.integers(0, len(pn)))
        bbs.append({"name": n, "inputs": [[p, width(2)] for p in pn[:k]],
                    "outputs": [[p, width(2)] for p in pn[k:]],
                    "declared": draw(st.integers(0, 3)) != 0, "before": draw(st.booleans())})
    # net tokens
    tokens = []
    for n, w in inputs + [x for x in outputs if x not in inputs]:
        tokens.extend([[n, None]] if w == 1 else [[n, i] for i in range(w)])
    internal = draw(st.lists(st.sampled_from(NET_NAMES), min_size=1, max_size=4, unique=True))
    for n in internal:
        w = width(3)
        tokens.extend([[n, None]] if w == 1 else [[n, i] for i in range(w)])
    net = st.sampled_from(tokens)
    stmts = []
    cnames = set()
    latch_full = draw(st.booleans())
    for _ in range(draw(st.integers(0, max_stmts))):
        kind = draw(st.sampled_from(["subckt", "subckt", "gate", "names", "latch", "conn"]))
        s = {"k": kind}
        if kind in ("subckt", "gate"):
            bi = draw(st.integers(0, nbb - 1))
            bb = bbs[bi]
            conns = []
            for pname, w in bb["inputs"] + bb["outputs"]:
                for bit in range(w):
                    m = draw(st.integers(0, 5))
                    if m == 0:
                        continue
                    conns.append([pname, bit if w > 1 else None, "unconn" if m == 1 else draw(net)])
            if bb["declared"] is False and not conns:
                continue
            s.update(model=bi, conns=draw(st.permutations(conns)) if conns else [])
        elif kind == "names":
            # (now and then more than ten inputs: in_10 sorts before in_2 as text)
            wide = draw(st.integers(0, 7)) == 0
            s.update(ins=draw(st.lists(net, min_size=11, max_size=12) if wide else st.lists(net, max_size=3)),
                     out=draw(net),
                     covers=draw(st.lists(st.sampled_from(COVERS), max_size=2)))
        elif kind == "latch":
            s.update(input=draw(net), output=draw(net), full=latch_full)
            if latch_full:
                s.update(type=draw(st.sampled_from(["re", "fe", "ah"])), control=draw(net),
                         init=draw(st.sampled_from(["0", "1", "3"])))
        else:
            a, b = draw(net), draw(net)
            if a == b:
                continue
            s.update(a=a, b=b)
        if kind != "conn":
            free = [c for c in ["u1", "u2", "u3", "inst_a", "inst_b", "g$1", "r_0", "r_1"] if c not in cnames]
            if free and draw(st.integers(0, 2)) == 0:
                # an instance may be called like a net - also like the net a later .names/.latch
                # drives (whose conventional name it then is, unless that one has a .cname too)
                free = free + [tok(t) for t in tokens if tok(t) not in cnames and "unconn" not in tok(t)]
            need = kind in ("subckt", "gate") or draw(st.booleans())
            if need and free:
                cn = draw(st.sampled_from(free))
                cnames.add(cn)
                s["cname"] = cn
            elif kind in ("subckt", "gate"):
                continue
            s["attr"] = draw(st.dictionaries(st.sampled_from(["LOC", "KEEP"]), st.sampled_from(["X1Y2", "1"]),
                                             max_size=2))
            s["param"] = draw(st.dictionaries(st.sampled_from(["INIT", "MODE"]),
                                              st.sampled_from(["1010", "16'h8000"]), max_size=2))
        stmts.append(s)
    conn_general = draw(st.integers(0, 5)) == 0
    if not conn_general:
        # the reader's .conn is only sound for scalar nets that are not mentioned again: keep that
        # form here (the general form is a recorded finding and stays in 1 of 6 cases)
        seen_tok = set()
        keep, conns = [], []
        for s in stmts:
            if s["k"] != "conn":
                keep.append(s)
                continue
            ta, tb = tuple(s["a"]), tuple(s["b"])
            if s["a"][1] is None and s["b"][1] is None and ta not in seen_tok and tb not in seen_tok:
                seen_tok.update([ta, tb])
                conns.append(s)
        stmts = keep + conns
    return {"top": top_name, "inputs": inputs, "outputs": outputs, "bbs": bbs, "stmts": stmts,
            "conn_general": conn_general,
            "stream": draw(st.lists(st.integers(0, 63), min_size=4, max_size=20))}


def tok(n):
    return n[0] if n[1] is None else "%s[%d]" % (n[0], n[1])


def in_domain(d):
    """invariants a structurally shrunk case may break"""
    try:
        nbb = len(d["bbs"])
        seen = set()
        conv = []
        for s in d["stmts"]:
            if "cname" in s:
                conv.append(s["cname"])
            elif s["k"] == "names":
                conv.append(tok(s["out"]))
            elif s["k"] == "latch":
                conv.append(tok(s["output"]))
        # final instance names (.cname, else by convention the driven net) must be distinct
        if len(set(conv)) != len(conv):
            return False
        for s in d["stmts"]:
            if s["k"] in ("subckt", "gate"):
                if s["model"] >= nbb or "cname" not in s:
                    return False
                ports = {p: w for p, w in d["bbs"][s["model"]]["inputs"] + d["bbs"][s["model"]]["outputs"]}
                for p, bit, _ in s["conns"]:
                    if p not in ports or (bit or 0) >= ports[p] or (bit is None) != (ports[p] == 1):
                        return False
                if not d["bbs"][s["model"]]["declared"] and not s["conns"]:
                    return False
            if "cname" in s:
                if s["cname"] in seen:
                    return False
                seen.add(s["cname"])
        wi = {n: w for n, w in d["inputs"]}
        if any(n in wi and wi[n] != w for n, w in d["outputs"]):
            return False
        return bool(d.get("stream")) and bool(d.get("top"))
    except (KeyError, TypeError, IndexError):
        return False


def render(d):
    """-> (text, expected view, info)"""
    ch = Chooser(d["stream"])
    info = {"bus_net": 0, "conn": 0, "unconn": 0, "model_used_twice": 0, "continuation": 0, "comments": 0,
            "undeclared_bb": 0, "bb_before_top": 0, "inout_port": 0}
    lines = []

    def comment():
        if ch.flag(1, 4):
            info["comments"] += 1
            lines.append("# a comment line %d" % ch.n(9))

    def wrap(words):
        """one statement, possibly continued with backslash-newline"""
        if len(words) > 3 and ch.flag(1, 3):
            k = 2 + ch.n(len(words) - 2)
            info["continuation"] += 1
            return " ".join(words[:k]) + " \\\n    " + " ".join(words[k:])
        return " ".join(words)

    def ports_line(kw, plist):
        words = [kw]
        for n, w in plist:
            words.extend([n] if w == 1 else ["%s[%d]" % (n, i) for i in range(w)])
        return wrap(words)

    def bb_block(bb):
        out = [".model %s" % bb["name"], ports_line(".inputs", bb["inputs"]),
               ports_line(".outputs", bb["outputs"]), ".blackbox", ".end", ""]
        return out

    comment()
    # a declared black box may precede the model that instantiates it (the reader re-elects the top
    # when a later model instantiates the current one); an unused one must follow, or it stays the top
    used_idx = {s["model"] for s in d["stmts"] if s["k"] in ("subckt", "gate")}
    early = set()
    for i, bb in enumerate(d["bbs"]):
        if bb["declared"] and bb.get("before") and i in used_idx:
            lines.extend(bb_block(bb))
            early.add(i)
            info["bb_before_top"] = 1
    lines.append(".model %s" % d["top"])
    lines.append(ports_line(".inputs", d["inputs"]))
    lines.append(ports_line(".outputs", d["outputs"]))
    uf = UF()
    pins = {}  # net token -> list of pin keys
    exp = {"top": d["top"], "models": {}, "insts": {}, "nets": []}
    exp["models"][d["top"]] = {"lib": "work", "leaf": None, "ports": {
        **{n: {"dir": "IN", "w": w} for n, w in d["inputs"]},
        **{n: {"dir": "OUT", "w": w} for n, w in d["outputs"]}}}
    both = {n for n, _ in d["inputs"]} & {n for n, _ in d["outputs"]}
    for n in both:
        exp["models"][d["top"]]["ports"][n]["dir"] = "INOUT"
        info["inout_port"] = 1

    def attach(n, pin):
        key = (n[0], n[1] or 0)
        uf.find(key)
        pins.setdefault(key, []).append(pin)
        if n[1] is not None:
            info["bus_net"] += 1

    for n, w in d["inputs"] + [x for x in d["outputs"] if x[0] not in both]:
        for b in range(w):
            attach([n, b if w > 1 else None], ["top", n, b])
    used_models = {}
    auto = {}
    widths = {}  # undeclared black boxes: port -> width seen
    for s in d["stmts"]:
        comment()
        k = s["k"]
        if k == "conn":
            lines.append(".conn %s %s" % (tok(s["a"]), tok(s["b"])))
            uf.union((s["a"][0], s["a"][1] or 0), (s["b"][0], s["b"][1] or 0))
            info["conn"] += 1
            continue
        data = {}
        if k in ("subckt", "gate"):
            bb = d["bbs"][s["model"]]
            used_models[bb["name"]] = used_models.get(bb["name"], 0) + 1
            words = [".%s" % k, bb["name"]]
            iname = s["cname"]
            for p, bit, actual in s["conns"]:
                formal = p if bit is None else "%s[%d]" % (p, bit)
                if actual == "unconn":
                    words.append("%s=unconn" % formal)
                    data.setdefault("unconn", []).append("%s[%d]" % (p, bit or 0))
                    info["unconn"] += 1
                else:
                    words.append("%s=%s" % (formal, tok(actual)))
                    attach(actual, ["inst", iname, p, bit or 0])
                w = widths.setdefault(bb["name"], {})
                w[p] = max(w.get(p, 0), (bit or 0) + 1)
            lines.append(wrap(words))
            ref, typ = bb["name"], "EBLIF." + k
        elif k == "names":
            words = [".names"] + [tok(n) for n in s["ins"]] + [tok(s["out"])]
            lines.append(wrap(words))
            nin = len(s["ins"])
            covers = []
            for c in s["covers"]:
                plane = "".join(["1", "0", "-"][ch.n(3)] for _ in range(nin))
                lines.append(("%s %s" % (plane, c)) if nin else c)
                covers.append(("%s %s" % (plane, c)) if nin else "%s " % c)
            iname = s.get("cname") or tok(s["out"])
            for i, n in enumerate(s["ins"]):
                attach(n, ["inst", iname, "in_%d" % i, 0])
            attach(s["out"], ["inst", iname, "out", 0])
            ref, typ = "logic-gate_%d" % nin, "EBLIF.names"
            data["covers"] = covers
        else:
            order = [("input", tok(s["input"])), ("output", tok(s["output"]))]
            nets = [("input", s["input"]), ("output", s["output"])]
            if s.get("full"):
                order += [("type", s["type"]), ("control", tok(s["control"])), ("init-val", s["init"])]
                nets += [("type", [s["type"], None]), ("control", s["control"]), ("init-val", [s["init"], None])]
            lines.append(wrap([".latch"] + [v for _, v in order]))
            iname = s.get("cname") or tok(s["output"])
            for p, n in nets:
                attach(n, ["inst", iname, p, 0])
            ref, typ = "generic-latch", "EBLIF.latch"
        if "cname" in s:
            lines.append(".cname %s" % s["cname"])
            data["cname"] = s["cname"]
        for kk, v in (s.get("attr") or {}).items():
            lines.append(".attr %s %s" % (kk, v))
            data.setdefault("attr", {})[kk] = v
        for kk, v in (s.get("param") or {}).items():
            lines.append(".param %s %s" % (kk, v))
            data.setdefault("param", {})[kk] = v
        if "unconn" in data:
            data["unconn"].sort()
        if iname in exp["insts"]:
            exp["dup_names"] = True
        exp["insts"][iname] = {"ref": ref, "type": typ, "data": data}
    lines.append(".end")
    lines.append("")
    for i, bb in enumerate(d["bbs"]):
        if bb["declared"]:
            if i not in early:
                lines.extend(bb_block(bb))
            exp["models"][bb["name"]] = {"lib": "hdi_primitives", "leaf": True, "ports": {
                **{n: {"dir": "IN", "w": w} for n, w in bb["inputs"]},
                **{n: {"dir": "OUT", "w": w} for n, w in bb["outputs"]}}}
        elif bb["name"] in used_models:
            info["undeclared_bb"] += 1
            exp["models"][bb["name"]] = {"lib": "hdi_primitives", "leaf": True, "ports": {
                p: {"dir": "UNDEFINED", "w": w} for p, w in widths.get(bb["name"], {}).items()}}
    if any(v >= 2 for v in used_models.values()):
        info["model_used_twice"] = 1
    groups = {}
    for key, plist in pins.items():
        groups.setdefault(uf.find(key), []).extend(plist)
    exp["nets"] = sorted(sorted(g, key=repr) for g in groups.values() if g)
    return "\n".join(lines) + "\n", exp, info


def view(netlist, with_models=True):
    out = {"top": None, "models": {}, "insts": {}, "nets": []}
    t = netlist.top_instance
    if t is None or t.reference is None:
        return out
    T = t.reference
    out["top"] = T.name
    for L in netlist.libraries:
        for D in L.definitions:
            if D.name is not None and (D.name.startswith("logic-gate_") or D.name == "generic-latch"):
                continue
            out["models"][D.name] = {"lib": L.name, "leaf": None if D is T else (
                len(D.cables) == 0 and len(D.children) == 0),
                                     "ports": {P.name: {"dir": P.direction.name, "w": len(P.pins)}
                                               for P in D.ports}}
    for I in T.children:
        data = {}
        if "EBLIF.cname" in I.data:
            data["cname"] = I.data["EBLIF.cname"]
        if I.data.get("EBLIF.attr"):
            data["attr"] = dict(I.data["EBLIF.attr"])
        if I.data.get("EBLIF.param"):
            data["param"] = dict(I.data["EBLIF.param"])
        if "EBLIF.output_covers" in I.data:
            data["covers"] = list(I.data["EBLIF.output_covers"])
        if I.data.get("unconn"):
            data["unconn"] = sorted(I.data["unconn"])
        if I.name in out["insts"]:
            out["dup_names"] = True
        out["insts"][I.name] = {"ref": I.reference.name if I.reference is not None else None,
                                "type": I.data.get("EBLIF.type"), "data": data}
    nets = []
    for C in T.cables:
        for w in C.wires:
            g = []
            for p in w.pins:
                if hasattr(p, "inner_pin"):
                    ip = p.inner_pin
                    g.append(["inst", p.instance.name, ip.port.name, list(ip.port.pins).index(ip)])
                else:
                    g.append(["top", p.port.name, list(p.port.pins).index(p)])
            if g:
                nets.append(sorted(g, key=repr))
    out["nets"] = sorted(nets)
    return out
