"""Small finite families enumerated completely (itertools.product) and run as fixed cases.

bulk family   - every bulk remover on a container with n members (n up to 40), asked to remove some
                real members plus, possibly, foreign elements, the collection given as a list or as a
                one-shot generator.  Sizes include "few of many" (8x and more), two-digit counts.
shape family  - re-pointing an instance between definitions whose port widths are drawn from a list
                that includes two-digit widths reading alike when written next to each other.
The callers (C01, C02, C14, C19) bring their own oracles; this module only builds the scene and makes
the call through the public API."""
import itertools

BULK_KINDS = ["children", "cables", "ports", "pins", "wires", "definitions", "libraries", "wire_pins"]
BULK_SIZES = [3, 9, 17, 40]


def bulk_cases():
    out = []
    for kind, n, n_real, n_foreign, arg in itertools.product(BULK_KINDS, BULK_SIZES, [1, 2, 3], [0, 1],
                                                             ["list", "generator"]):
        out.append({"bulk": [kind, n, n_real, n_foreign, arg]})
    return out


def build_bulk(params):
    """-> (netlist, other objects to keep alive, container, members, call) where call() performs the
    bulk removal and `removal` is the list of elements handed over"""
    import spydrnet as sdn

    kind, n, n_real, n_foreign, arg = params
    nl = sdn.Netlist(name="n")
    L = nl.create_library(name="work")
    leaf = L.create_definition(name="leaf")
    lp = leaf.create_port(name="p", pins=1)
    D = L.create_definition(name="d")
    other = L.create_definition(name="other")
    keep = [other]
    if kind == "children":
        members = [D.create_child(name="u%d" % i, reference=leaf) for i in range(n)]
        foreign = [other.create_child(name="f%d" % i, reference=leaf) for i in range(n_foreign)]
        container, meth = D, D.remove_children_from
    elif kind == "cables":
        members = [D.create_cable(name="c%d" % i, wires=1) for i in range(n)]
        foreign = [other.create_cable(name="f%d" % i, wires=1) for i in range(n_foreign)]
        container, meth = D, D.remove_cables_from
    elif kind == "ports":
        members = [D.create_port(name="p%d" % i, pins=1) for i in range(n)]
        foreign = [other.create_port(name="f%d" % i, pins=1) for i in range(n_foreign)]
        D_inst = other.create_child(name="user", reference=D)   # the definition is instanced
        keep.append(D_inst)
        container, meth = D, D.remove_ports_from
    elif kind == "pins":
        P = D.create_port(name="p", pins=n)
        keep.append(other.create_child(name="user", reference=D))
        members = list(P.pins)
        foreign = list(other.create_port(name="f", pins=max(1, n_foreign)).pins)[:n_foreign]
        container, meth = P, P.remove_pins_from
    elif kind == "wires":
        C = D.create_cable(name="c", wires=n)
        members = list(C.wires)
        foreign = list(other.create_cable(name="f", wires=max(1, n_foreign)).wires)[:n_foreign]
        container, meth = C, C.remove_wires_from
    elif kind == "definitions":
        members = [L.create_definition(name="m%d" % i) for i in range(n)]
        L2 = nl.create_library(name="lib2")
        foreign = [L2.create_definition(name="f%d" % i) for i in range(n_foreign)]
        container, meth = L, L.remove_definitions_from
    elif kind == "libraries":
        members = [nl.create_library(name="l%d" % i) for i in range(n)]
        nl2 = sdn.Netlist(name="n2")
        keep.append(nl2)
        foreign = [nl2.create_library(name="f%d" % i) for i in range(n_foreign)]
        container, meth = nl, nl.remove_libraries_from
    else:  # wire_pins: disconnect_pins_from on a net with n instance pins
        C = D.create_cable(name="net", wires=1)
        W = C.wires[0]
        insts = [D.create_child(name="u%d" % i, reference=leaf) for i in range(n)]
        members = []
        for I in insts:
            W.connect_pin(I.pins[lp.pins[0]])
            members.append(I.pins[lp.pins[0]])
        C2 = D.create_cable(name="net2", wires=1)
        foreign = []
        for i in range(n_foreign):
            J = D.create_child(name="g%d" % i, reference=leaf)
            C2.wires[0].connect_pin(J.pins[lp.pins[0]])
            foreign.append(J.pins[lp.pins[0]])
        container, meth = W, W.disconnect_pins_from
    # real members to remove: spread over the container (first, middle, last ...)
    idx = sorted({0, n // 2, n - 1, 1 % n})[:n_real] if n_real < 4 else list(range(n_real))
    removal = [members[i] for i in idx] + foreign
    # foreign element not last: a half-way refusal has something before and after it
    if foreign and len(removal) > 1:
        removal = removal[:1] + foreign + removal[1:len(removal) - len(foreign)]
    handed = list(removal) if arg == "list" else (x for x in list(removal))
    nl.set_top_instance(D, "top")
    return {"netlist": nl, "keep": keep, "container": container, "members": members,
            "removal": removal, "foreign": foreign, "call": lambda: meth(handed), "kind": kind}


SHAPES = [[1, 12], [11, 2], [12, 1], [2, 11], [1, 2], [2, 1], [3], [1, 1, 1], [13], [2, 32], [23, 2]]


def shape_cases():
    return [{"shape": [a, b]} for a, b in itertools.product(SHAPES, SHAPES)]


def build_shape(params):
    """an instance of a definition with port widths params[0], every pin on its own wire, about to
    be re-pointed at a definition with port widths params[1]"""
    import spydrnet as sdn

    wa, wb = params
    nl = sdn.Netlist(name="n")
    L = nl.create_library(name="work")
    A = L.create_definition(name="A")
    for k, w in enumerate(wa):
        A.create_port(name="p%d" % k, pins=w)
    B = L.create_definition(name="B")
    for k, w in enumerate(wb):
        B.create_port(name="p%d" % k, pins=w)
    T = L.create_definition(name="T")
    I = T.create_child(name="u", reference=A)
    other = T.create_child(name="v", reference=B)
    C = T.create_cable(name="c", wires=sum(wa))
    k = 0
    for P in A.ports:
        for p in P.pins:
            C.wires[k].connect_pin(I.pins[p])
            k += 1
    nl.set_top_instance(T, "top")

    def call():
        I.reference = B
    return {"netlist": nl, "instance": I, "old": A, "new": B, "other": other, "call": call,
            "compatible": list(wa) == list(wb)}
