"""Independent reference model of a spydrnet netlist (DESIGN.md 2.3).

Reads the IR through its public read API only (.libraries/.definitions/.ports/.cables/.children/
.pins/.wires/.references, parent properties, .wire, .data).  No call into spydrnet.util, the
composers, clone, uniquify or flatten."""


def _ids(seq):
    return [id(x) for x in seq]


def is_outer(pin):
    return hasattr(pin, "inner_pin")


def is_leaf_def(d):
    return len(d.children) == 0 and len(d.cables) == 0


# ------------------------------------------------------------------------------------------------
# well-formedness


def wf(netlist, strict=True, allow_foreign_refs=False):
    """list of (code, detail) violations of well-formedness / self-containment.

    strict: reference sets may only contain instances that are children inside this netlist or its
    top instance.  non-strict (wf-core) tolerates parent-less extra members of a reference set
    (the public remove_child leaves the removed instance registered with its definition)."""
    bad = []

    def err(code, detail=""):
        bad.append((code, detail))

    libs = list(netlist.libraries)
    if len(set(_ids(libs))) != len(libs):
        err("wf:dup-library")
    in_defs, in_ports, in_pins, in_cables, in_wires, in_insts = {}, {}, {}, {}, {}, {}
    for L in libs:
        if L.netlist is not netlist:
            err("wf:library-parent", str(L.name))
        ds = list(L.definitions)
        if len(set(_ids(ds))) != len(ds):
            err("wf:dup-definition", str(L.name))
        for D in ds:
            if D.library is not L:
                err("wf:definition-parent", str(D.name))
            in_defs[id(D)] = D
    for D in list(in_defs.values()):
        ps = list(D.ports)
        if len(set(_ids(ps))) != len(ps):
            err("wf:dup-port", str(D.name))
        for P in ps:
            if P.definition is not D:
                err("wf:port-parent", "%s.%s" % (D.name, P.name))
            in_ports[id(P)] = P
            pins = list(P.pins)
            if len(set(_ids(pins))) != len(pins):
                err("wf:dup-pin", "%s.%s" % (D.name, P.name))
            for p in pins:
                if p.port is not P:
                    err("wf:pin-parent", "%s.%s" % (D.name, P.name))
                in_pins[id(p)] = p
        cs = list(D.cables)
        if len(set(_ids(cs))) != len(cs):
            err("wf:dup-cable", str(D.name))
        for C in cs:
            if C.definition is not D:
                err("wf:cable-parent", "%s.%s" % (D.name, C.name))
            in_cables[id(C)] = C
            ws = list(C.wires)
            if len(set(_ids(ws))) != len(ws):
                err("wf:dup-wire", "%s.%s" % (D.name, C.name))
            for w in ws:
                if w.cable is not C:
                    err("wf:wire-parent", "%s.%s" % (D.name, C.name))
                in_wires[id(w)] = w
        ch = list(D.children)
        if len(set(_ids(ch))) != len(ch):
            err("wf:dup-child", str(D.name))
        for I in ch:
            if I.parent is not D:
                err("wf:child-parent", "%s/%s" % (D.name, I.name))
            in_insts[id(I)] = I
    top = netlist.top_instance
    all_insts = dict(in_insts)
    if top is not None:
        if not hasattr(top, "reference"):
            err("wf:top-not-instance", type(top).__name__)
            top = None
        else:
            all_insts[id(top)] = top
            if top.parent is not None and id(top) not in in_insts:
                err("wf:closure:top-parent-outside", str(top.name))
    # instances mirror definitions
    outer_ok = {}
    for I in all_insts.values():
        R = I.reference
        who = "%s" % (I.name,)
        if R is None:
            if len(list(I.pins)) != 0:
                err("wf:mirror:pins-without-reference", who)
            continue
        if id(R) not in in_defs:
            if not allow_foreign_refs:
                err("wf:closure:reference-outside", "%s -> %s" % (who, R.name))
        if I not in R.references:
            err("wf:mirror:not-in-reference-set", "%s -> %s" % (who, R.name))
        inner = [p for P in R.ports for p in P.pins]
        keys = list(I.pins.keys())
        if set(_ids(keys)) != set(_ids(inner)) or len(keys) != len(inner):
            err("wf:mirror:outer-pin-keys", "%s -> %s: %d keys for %d inner pins" % (
                who, R.name, len(keys), len(inner)))
        for ip in keys:
            op = I.pins[ip]
            if op.instance is not I:
                err("wf:mirror:outer-instance", who)
            if op.inner_pin is not ip:
                err("wf:mirror:outer-inner-pin", who)
            outer_ok[id(op)] = op
            w = op.wire
            if w is not None:
                if id(w) not in in_wires:
                    err("wf:closure:outer-pin-wire-outside", who)
                elif sum(1 for x in w.pins if x is op) != 1:
                    err("wf:pinwire:outer-pin-not-listed-once", who)
                elif I.parent is not None and w.cable.definition is not I.parent:
                    err("wf:pinwire:outer-pin-wire-in-other-definition", who)
    for D in in_defs.values():
        for r in D.references:
            if r.reference is not D:
                err("wf:mirror:reference-set-stale-member", "%s has %s" % (D.name, r.name))
            if id(r) not in all_insts:
                if strict or r.parent is not None:
                    err("wf:closure:reference-set-member-outside", "%s has %s" % (D.name, r.name))
    # pin-wire
    for p in in_pins.values():
        w = p.wire
        if w is not None:
            if id(w) not in in_wires:
                err("wf:closure:inner-pin-wire-outside", str(p.port.name))
            elif sum(1 for x in w.pins if x is p) != 1:
                err("wf:pinwire:inner-pin-not-listed-once", str(p.port.name))
            elif w.cable.definition is not p.port.definition:
                err("wf:pinwire:inner-pin-wire-in-other-definition", str(p.port.name))
    for w in in_wires.values():
        pins = list(w.pins)
        if len(set(_ids(pins))) != len(pins):
            err("wf:pinwire:dup-pin-on-wire", str(w.cable.name))
        for p in pins:
            if p.wire is not w:
                err("wf:pinwire:listed-pin-reports-other-wire", str(w.cable.name))
            if is_outer(p):
                if id(p) not in outer_ok:
                    err("wf:closure:wire-lists-dead-or-foreign-outer-pin", str(w.cable.name))
            else:
                if id(p) not in in_pins:
                    err("wf:closure:wire-lists-foreign-inner-pin", str(w.cable.name))
    return bad


# ------------------------------------------------------------------------------------------------
# canonical structure


def freeze(v):
    if isinstance(v, dict):
        return {"__dict__": sorted(([str(k), freeze(x)] for k, x in v.items()), key=lambda kv: kv[0])}
    if isinstance(v, (list, tuple)):
        return [freeze(x) for x in v]
    if isinstance(v, (str, int, float, bool)) or v is None:
        return v
    return "<%s>" % type(v).__name__


def data_of(el, drop=(".NS", ".NAME")):
    return {str(k): freeze(el.data[k]) for k in el.data if k not in drop}


def canon(netlist, drop=(".NS", ".NAME"), sort_pins=False):
    """canonical, JSON-able structure keyed by position"""
    def_pos = {}
    for li, L in enumerate(netlist.libraries):
        for di, D in enumerate(L.definitions):
            def_pos[id(D)] = [li, di]

    def bundle(B, n):
        return {"name": B.name, "w": n, "lo": B.lower_index, "arr": bool(B.is_array),
                "downto": B.is_downto, "data": data_of(B, drop)}

    out = {"name": netlist.name, "data": data_of(netlist, drop), "libs": []}
    for L in netlist.libraries:
        lo = {"name": L.name, "data": data_of(L, drop), "defs": []}
        for D in L.definitions:
            port_pos = {}
            ports = []
            for pi, P in enumerate(D.ports):
                b = bundle(P, len(P.pins))
                b["dir"] = P.direction.name
                ports.append(b)
                for bi, p in enumerate(P.pins):
                    port_pos[id(p)] = ("p", pi, bi)
            child_pos = {id(I): ci for ci, I in enumerate(D.children)}
            children = []
            for I in D.children:
                R = I.reference
                ref = None if R is None else def_pos.get(id(R), "outside:%s" % (R.name,))
                children.append({"name": I.name, "ref": ref, "data": data_of(I, drop)})
            cables = []
            for C in D.cables:
                b = bundle(C, len(C.wires))
                ws = []
                for w in C.wires:
                    ends = []
                    for p in w.pins:
                        ends.append(_end(p, port_pos, child_pos))
                    if sort_pins:
                        ends.sort(key=lambda e: [str(x) for x in e])
                    ws.append(ends)
                b["wires"] = ws
                cables.append(b)
            lo["defs"].append({"name": D.name, "data": data_of(D, drop), "ports": ports,
                               "cables": cables, "children": children})
        out["libs"].append(lo)
    top = netlist.top_instance
    if top is None or not hasattr(top, "reference"):
        out["top"] = None
    else:
        R = top.reference
        out["top"] = {"name": top.name, "data": data_of(top, drop),
                      "is_top": bool(top.is_top_instance),
                      "ref": None if R is None else def_pos.get(id(R), "outside:%s" % (R.name,))}
    return out


def _end(p, port_pos, child_pos):
    if is_outer(p):
        I = p.instance
        ip = p.inner_pin
        if I is None or ip is None or id(I) not in child_pos:
            return ["?outer"]
        P = ip.port
        R = I.reference
        if P is None or R is None:
            return ["?outer-port"]
        try:
            pi = _index_is(R.ports, P)
            bi = _index_is(P.pins, ip)
        except ValueError:
            return ["?outer-index"]
        return ["i", child_pos[id(I)], pi, bi]
    e = port_pos.get(id(p))
    if e is None:
        return ["?inner"]
    return list(e)


def _index_is(seq, x):
    for i, y in enumerate(seq):
        if y is x:
            return i
    raise ValueError


def diff(a, b, path="", out=None, limit=6):
    """first few differences between two canon structures, as strings"""
    if out is None:
        out = []
    if len(out) >= limit:
        return out
    if type(a) != type(b):
        out.append("%s: %r != %r" % (path, _short(a), _short(b)))
    elif isinstance(a, dict):
        for k in sorted(set(a) | set(b)):
            if k not in a:
                out.append("%s.%s: missing on left (right=%s)" % (path, k, _short(b[k])))
            elif k not in b:
                out.append("%s.%s: missing on right (left=%s)" % (path, k, _short(a[k])))
            else:
                diff(a[k], b[k], "%s.%s" % (path, k), out, limit)
    elif isinstance(a, list):
        if len(a) != len(b):
            out.append("%s: length %d != %d (%s | %s)" % (path, len(a), len(b), _short(a), _short(b)))
        else:
            for i, (x, y) in enumerate(zip(a, b)):
                diff(x, y, "%s[%d]" % (path, i), out, limit)
    elif a != b:
        out.append("%s: %r != %r" % (path, a, b))
    return out


def _short(x):
    s = repr(x)
    return s if len(s) < 160 else s[:157] + "..."


# ------------------------------------------------------------------------------------------------
# elaboration


class UF:
    def __init__(self):
        self.p = {}

    def find(self, x):
        p = self.p
        if x not in p:
            p[x] = x
            return x
        r = x
        while p[r] != r:
            r = p[r]
        while p[x] != r:
            p[x], x = r, p[x]
        return r

    def union(self, a, b):
        ra, rb = self.find(a), self.find(b)
        if ra != rb:
            self.p[ra] = rb


def elab(netlist, max_nodes=200000):
    """elaborate below the top instance.

    returns dict with
      occ:    {path(tuple of names) : (definition name, is_leaf, data)} for every instance occurrence
      nets:   frozenset of frozensets of endpoints; endpoint = ('leaf', path, port_index, bit) or
              ('top', port_index, bit); unconnected endpoints are singletons
      classes: frozenset of frozensets of hierarchical wires (path, id(wire))  [for C12]
      hwires: list of (path, wire) ; insts: {path: instance}
    path elements are instance names (or '#<position>' for unnamed instances)."""
    top = netlist.top_instance
    res = {"occ": {}, "nets": frozenset(), "classes": frozenset(), "hwires": [], "insts": {}}
    if top is None or top.reference is None:
        return res
    uf = UF()
    endpoints = []  # (endpoint, node or None)
    hwires = []
    count = [0]

    def key(I, pos):
        return I.name if I.name is not None else "#%d" % pos

    def walk(I, path):
        count[0] += 1
        if count[0] > max_nodes:
            raise RuntimeError("elaboration too large")
        D = I.reference
        res["insts"][path] = I
        for C in D.cables:
            for w in C.wires:
                hwires.append((path, w))
                uf.find((path, id(w)))
        for pos, ch in enumerate(D.children):
            cpath = path + (key(ch, pos),)
            R = ch.reference
            if R is None:
                res["occ"][cpath] = (None, False, data_of(ch))
                continue
            leaf = is_leaf_def(R)
            res["occ"][cpath] = (R.name, leaf, data_of(ch))
            for pi, P in enumerate(R.ports):
                for bi, ip in enumerate(P.pins):
                    op = ch.pins[ip]
                    ow = op.wire
                    if leaf:
                        endpoints.append((("leaf", cpath, pi, bi),
                                          (path, id(ow)) if ow is not None else None))
                    else:
                        iw = ip.wire
                        if ow is not None and iw is not None:
                            uf.union((cpath, id(iw)), (path, id(ow)))
            if not leaf:
                walk(ch, cpath)

    D = top.reference
    for pi, P in enumerate(D.ports):
        for bi, ip in enumerate(P.pins):
            w = ip.wire
            endpoints.append((("top", pi, bi), ((), id(w)) if w is not None else None))
    walk(top, ())
    groups = {}
    singles = []
    for e, node in endpoints:
        if node is None:
            singles.append(frozenset([e]))
        else:
            groups.setdefault(uf.find(node), set()).add(e)
    res["nets"] = frozenset([frozenset(g) for g in groups.values()] + singles)
    cls = {}
    for path, w in hwires:
        cls.setdefault(uf.find((path, id(w))), set()).add((path, id(w)))
    res["classes"] = frozenset(frozenset(c) for c in cls.values())
    res["hwires"] = hwires
    res["uf"] = uf
    return res


# ------------------------------------------------------------------------------------------------
# identity-level snapshot


def ident(netlist, with_refs=True):
    """identity-level snapshot: ids of every element in every list in order, back-pointers,
    reference sets, instance pin maps, data (frozen deep copies).  JSON-able."""
    out = {"nl": id(netlist), "data": data_of(netlist, drop=()), "libs": []}
    for L in netlist.libraries:
        lo = {"id": id(L), "parent": id(L.netlist), "data": data_of(L, drop=()), "defs": []}
        for D in L.definitions:
            do = {"id": id(D), "parent": id(D.library), "data": data_of(D, drop=()),
                  "ports": [], "cables": [], "children": []}
            if with_refs:
                do["refs"] = sorted(id(r) for r in D.references)
            for P in D.ports:
                do["ports"].append({"id": id(P), "parent": id(P.definition), "data": data_of(P, drop=()),
                                    "dir": P.direction.name, "lo": P.lower_index,
                                    "arr": bool(P.is_array), "downto": P.is_downto,
                                    "pins": [[id(p), id(p.port), id(p.wire) if p.wire else None]
                                             for p in P.pins]})
            for C in D.cables:
                do["cables"].append({"id": id(C), "parent": id(C.definition), "data": data_of(C, drop=()),
                                     "lo": C.lower_index, "arr": bool(C.is_array),
                                     "downto": C.is_downto,
                                     "wires": [[id(w), id(w.cable), [id(p) for p in w.pins]]
                                               for w in C.wires]})
            for I in D.children:
                do["children"].append(_ident_inst(I))
            lo["defs"].append(do)
        out["libs"].append(lo)
    top = netlist.top_instance
    out["top"] = None if top is None or not hasattr(top, "reference") else _ident_inst(top)
    return out


def _ident_inst(I):
    return {"id": id(I), "parent": id(I.parent) if I.parent is not None else None,
            "ref": id(I.reference) if I.reference is not None else None,
            "data": data_of(I, drop=()),
            "pins": [[id(k), id(v), id(v.wire) if v.wire is not None else None,
                      id(v.instance) if v.instance is not None else None,
                      id(v.inner_pin) if v.inner_pin is not None else None]
                     for k, v in I.pins.items()]}


def reachable_ids(netlist):
    """ids of every object in the containment tree (plus top instance and all outer pins)"""
    s = {id(netlist)}
    for L in netlist.libraries:
        s.add(id(L))
        for D in L.definitions:
            s.add(id(D))
            for P in D.ports:
                s.add(id(P))
                s.update(id(p) for p in P.pins)
            for C in D.cables:
                s.add(id(C))
                s.update(id(w) for w in C.wires)
            for I in D.children:
                s.add(id(I))
                s.update(id(v) for v in I.pins.values())
    top = netlist.top_instance
    if top is not None and hasattr(top, "pins"):
        s.add(id(top))
        s.update(id(v) for v in top.pins.values())
    return s


def library_deps_acyclic(netlist):
    """library dependency graph (library A instantiates a cell of library B) has no cycle"""
    dep = {}
    for L in netlist.libraries:
        s = set()
        for D in L.definitions:
            for I in D.children:
                R = I.reference
                if R is not None and R.library is not None and R.library is not L:
                    s.add(id(R.library))
        dep[id(L)] = s
    state = {}

    def visit(n):
        if state.get(n) == 1:
            return False
        if state.get(n) == 2:
            return True
        state[n] = 1
        for m in dep.get(n, ()):
            if not visit(m):
                return False
        state[n] = 2
        return True
    return all(visit(n) for n in dep)


def hierarchy_acyclic(defs):
    """no definition (transitively) instantiates itself"""
    state = {}

    def visit(D):
        s = state.get(id(D))
        if s == 1:
            return False
        if s == 2:
            return True
        state[id(D)] = 1
        for I in D.children:
            R = I.reference
            if R is not None and not visit(R):
                return False
        state[id(D)] = 2
        return True
    return all(visit(D) for D in defs)
