"""Independent EDIF 2 0 0 writer: canonical structure (vf.model.canon of an API-built netlist) -> text.

Written from the grammar the reader accepts; shares no code with spydrnet.composers.  Returns the text,
the expected structure (what a faithful reader must build) and a token-role list for C15.

Syntactic variation comes from a "choice stream" (list of ints drawn by Hypothesis), never from an RNG.
"""
import re

LEGAL = re.compile(r"[A-Za-z][A-Za-z0-9_]{0,254}\Z")
LEGAL_AMP = re.compile(r"(?:[A-Za-z][A-Za-z0-9_]{0,254}|&[A-Za-z0-9_]{1,255})\Z")


class Chooser:
    def __init__(self, stream):
        self.s = list(stream) or [0]
        self.i = 0

    def n(self, k):
        v = self.s[self.i % len(self.s)]
        self.i += 1
        return v % k if k > 0 else 0

    def flag(self, num=1, den=2):
        return self.n(den) < num


def swapcase_some(s, ch):
    """vary the case of an identifier reference (EDIF identifiers are case-insensitive)"""
    m = ch.n(4)
    if m == 0:
        return s
    if m == 1:
        return s.upper()
    if m == 2:
        return s.lower()
    return s.swapcase()


class Ids:
    """identifier allocation per scope: legal, unique ignoring case"""

    def __init__(self):
        self.used = set()
        self.k = 0

    def make(self, name, ch, force_rename=False):
        """-> (identifier, renamed?)"""
        if name is not None and LEGAL.match(name) and name.lower() not in self.used \
                and not force_rename and not re.search(r"_\d+_\Z", name):
            self.used.add(name.lower())
            return name, False
        style = ch.n(5)
        if style == 4 and name:
            # a long identifier (tokens of 40+ characters)
            cand = re.sub(r"[^0-9A-Za-z_]", "_", name)
            if not cand[:1].isalpha():
                cand = "n" + cand
            cand = (cand + "_" + "long_identifier_" * 3)[:60 + ch.n(20)]
            if LEGAL.match(cand) and cand.lower() not in self.used and not re.search(r"_\d+_\Z", cand):
                self.used.add(cand.lower())
                return cand, True
            style = 0
        if style == 3 and name:
            # the sanitised form other writers use: illegal characters -> '_', '&' before a non-letter
            cand = re.sub(r"[^0-9A-Za-z_]", "_", name)
            if not cand[0].isalpha():
                cand = "&" + cand
            if LEGAL_AMP.match(cand) and cand.lower() not in self.used and cand != name \
                    and not re.search(r"_\d+_\Z", cand):
                self.used.add(cand.lower())
                return cand, True
        while True:
            self.k += 1
            cand = "%s%d" % (["id", "N", "x_"][style % 3], self.k)
            if cand.lower() not in self.used:
                self.used.add(cand.lower())
                return cand, True


def q(s):
    return '"%s"' % s


def render(c, stream, opts=None):
    """c: canon structure (see vf.model.canon). returns (text, expected, info)"""
    opts = opts or {}
    ch = Chooser(stream)
    KW = lambda s: [s, s.lower(), s.upper()][ch.n(3)] if opts.get("kw_case", True) else s  # noqa
    out = []
    info = {"case_varied_refs": 0, "bus_out_of_order": 0, "bus_gap": 0, "renames": 0}

    def comment():
        if opts.get("comments", True) and ch.flag(1, 6):
            return ' (%s "a comment %d")' % (KW("comment"), ch.n(9))
        return ""

    def namedef(ident, renamed, name):
        if renamed:
            info["renames"] += 1
            return "(%s %s %s)" % (KW("rename"), ident, q(name))
        return ident

    nl_ids = Ids()
    nl_id, nl_ren = nl_ids.make(c["name"] or "netlist", ch)
    out.append("(%s %s" % (KW("edif"), namedef(nl_id, nl_ren, c["name"] or "netlist")))
    out.append("  (%s 2 0 0)" % KW("edifVersion"))
    out.append("  (%s 0)" % KW("edifLevel"))
    out.append("  (%s (%s 0))" % (KW("keywordMap"), KW("keywordLevel")))
    if ch.flag():
        out.append('  (status (written (timeStamp 2020 1 2 3 4 5) (program "vf" (version "1"))%s))'
                   % comment())
    expected = {"name": c["name"] or "netlist", "libs": [], "top": None}
    lib_ids = Ids()
    lib_id = []
    def_id = []  # [li][di] -> ident
    port_id = []  # [li][di][pi] -> (ident, is_array)
    for li, L in enumerate(c["libs"]):
        lid, lren = lib_ids.make(L["name"], ch, force_rename=ch.flag(1, 5))
        lib_id.append(lid)
        ext = opts.get("external", True) and ch.flag(1, 6) and all(
            not d["children"] and not d["cables"] for d in L["defs"])
        out.append("  (%s %s" % (KW("external") if ext else KW("library"), namedef(lid, lren, L["name"])))
        out.append("    (%s 0)" % KW("edifLevel"))
        out.append("    (%s (%s))%s" % (KW("technology"), KW("numberDefinition"), comment()))
        eL = {"name": L["name"], "id": lid, "defs": []}
        d_ids = Ids()
        def_id.append([])
        port_id.append([])
        for di, D in enumerate(L["defs"]):
            did, dren = d_ids.make(D["name"], ch, force_rename=ch.flag(1, 5))
            def_id[li].append(did)
            out.append("    (%s %s (%s %s)" % (KW("cell"), namedef(did, dren, D["name"]), KW("cellType"),
                                               KW("GENERIC")))
            out.append("      (%s netlist (%s %s)" % (KW("view"), KW("viewType"), KW("NETLIST")))
            out.append("        (%s%s" % (KW("interface"), comment()))
            eD = {"name": D["name"], "id": did, "ports": [], "cables": [], "children": []}
            p_ids = Ids()
            port_id[li].append([])
            for P in D["ports"]:
                pid, pren = p_ids.make(P["name"], ch, force_rename=ch.flag(1, 4))
                pname = P["name"]
                lo = 0
                is_arr = P["w"] > 1 or P["arr"]
                if is_arr and opts.get("port_range", True) and ch.flag():
                    # the range of an array port travels in the original name: "p[hi:lo]"
                    lo = P["lo"]
                    hi = lo + P["w"] - 1
                    pname = "%s[%d:%d]" % (P["name"], hi, lo) if P["downto"] or ch.flag() \
                        else "%s[%d:%d]" % (P["name"], lo, hi)
                    pren = True
                    if pid == P["name"]:
                        pid, _ = p_ids.make(None, ch)
                nd = namedef(pid, pren, pname)
                d = {"IN": "INPUT", "OUT": "OUTPUT", "INOUT": "INOUT"}.get(P["dir"])
                dirs = " (%s %s)" % (KW("direction"), KW(d)) if d else ""
                if is_arr:
                    out.append("          (%s (%s %s %d)%s)" % (KW("port"), KW("array"), nd, P["w"], dirs))
                else:
                    out.append("          (%s %s%s%s)" % (KW("port"), nd, dirs, comment()))
                port_id[li][di].append((pid, is_arr))
                eD["ports"].append({"name": pname, "id": pid, "dir": P["dir"], "w": P["w"],
                                    "arr": bool(is_arr)})
            out.append("        )")
            if D["children"] or D["cables"]:
                out.append("        (%s" % KW("contents"))
                i_ids = Ids()
                inst_id = []
                for I in D["children"]:
                    iid, iren = i_ids.make(I["name"], ch, force_rename=ch.flag(1, 4))
                    inst_id.append(iid)
                    rli, rdi = I["ref"]
                    cref = def_id[rli][rdi]
                    cv = swapcase_some(cref, ch)
                    if cv != cref:
                        info["case_varied_refs"] += 1
                    if rli != li or ch.flag():
                        lv = swapcase_some(lib_id[rli], ch)
                        if lv != lib_id[rli]:
                            info["case_varied_refs"] += 1
                        libref = " (%s %s)" % (KW("libraryRef"), lv)
                    else:
                        libref = ""
                    out.append("          (%s %s (%s netlist (%s %s%s))" % (
                        KW("instance"), namedef(iid, iren, I["name"]), KW("viewRef"), KW("cellRef"), cv,
                        libref))
                    props = []
                    for pr in (I["data"].get("EDIF.properties") or []):
                        pr = thaw(pr)
                        v = pr["value"]
                        if isinstance(v, bool):
                            tv = "(%s (%s))" % (KW("boolean"), KW("true" if v else "false"))
                        elif isinstance(v, int):
                            tv = "(%s %d)" % (KW("integer"), v)
                        else:
                            tv = "(%s %s)" % (KW("string"), q(v))
                        if "original_identifier" in pr:
                            pn = "(%s %s %s)" % (KW("rename"), pr["identifier"], q(pr["original_identifier"]))
                        else:
                            pn = pr["identifier"]
                        out.append("            (%s %s %s)" % (KW("property"), pn, tv))
                        ep = {"identifier": pr["identifier"], "value": v}
                        if "original_identifier" in pr:
                            ep["original_identifier"] = pr["original_identifier"]
                        props.append(ep)
                    out.append("          )%s" % comment())
                    eD["children"].append({"name": I["name"], "id": iid, "ref": [rli, rdi], "props": props})
                c_ids = Ids()
                nets = []  # (text lines, order key)
                for C in D["cables"]:
                    cid, cren = c_ids.make(C["name"], ch, force_rename=ch.flag(1, 4))
                    is_arr = C["w"] > 1 or C["arr"]

                    def joined(ends):
                        refs = []
                        for e in ends:
                            if e[0] == "p":
                                pid, parr = port_id[li][di][e[1]]
                                pv = swapcase_some(pid, ch)
                                if pv != pid:
                                    info["case_varied_refs"] += 1
                                if parr:
                                    refs.append("(%s (%s %s %d))" % (KW("portRef"), KW("member"), pv, e[2]))
                                else:
                                    refs.append("(%s %s)" % (KW("portRef"), pv))
                            else:
                                rli, rdi = D["children"][e[1]]["ref"]
                                pid, parr = port_id[rli][rdi][e[2]]
                                pv = swapcase_some(pid, ch)
                                iv = swapcase_some(inst_id[e[1]], ch)
                                if pv != pid or iv != inst_id[e[1]]:
                                    info["case_varied_refs"] += 1
                                iref = "(%s %s)" % (KW("instanceRef"), iv)
                                if parr:
                                    refs.append("(%s (%s %s %d) %s)" % (KW("portRef"), KW("member"), pv,
                                                                       e[3], iref))
                                else:
                                    refs.append("(%s %s %s)" % (KW("portRef"), pv, iref))
                        return "(%s %s)" % (KW("joined"), " ".join(refs))
                    if not is_arr:
                        ec = {"name": C["name"], "id": cid, "w": 1, "lo": 0, "arr": False,
                              "wires": [C["wires"][0] if C["wires"] else []]}
                        nets.append([(ec, "          (%s %s %s%s)" % (
                            KW("net"), namedef(cid, cren, C["name"]),
                            joined(C["wires"][0] if C["wires"] else []), comment()))])
                        eD["cables"].append(ec)
                    else:
                        emitted = []
                        for bi, ends in enumerate(C["wires"]):
                            if not ends and opts.get("gaps", True) and ch.flag(1, 3):
                                continue  # an unconnected bit that the file does not mention
                            emitted.append(bi)
                        if not emitted:
                            continue
                        lo_b, hi_b = min(emitted), max(emitted)
                        if len(emitted) != hi_b - lo_b + 1:
                            info["bus_gap"] += 1
                        order = list(emitted)
                        if opts.get("shuffle", True) and len(order) > 1:
                            order.sort(key=lambda b: (ch.n(7), b))
                            if order != sorted(order):
                                info["bus_out_of_order"] += 1
                        ec = {"name": C["name"], "id": cid, "w": hi_b - lo_b + 1,
                              "lo": C["lo"] + lo_b, "arr": True,
                              "wires": [C["wires"][b] for b in range(lo_b, hi_b + 1)]}
                        group = []
                        for bi in order:
                            idx = C["lo"] + bi
                            ends = C["wires"][bi]
                            if opts.get("split_bits", True) and ch.flag(1, 8):
                                # the same bit declared twice (as in bundled float_demo.edf): the
                                # endpoints of both declarations belong to the one bit
                                h = ch.n(len(ends) + 1)
                                info["bus_bit_declared_twice"] = info.get("bus_bit_declared_twice", 0) + 1
                                group.append((ec, "          (%s (%s %s_%d_ %s) %s)" % (
                                    KW("net"), KW("rename"), cid, idx, q("%s[%d]" % (C["name"], idx)),
                                    joined(ends[:h]))))
                                ends = ends[h:]
                            group.append((ec, "          (%s (%s %s_%d_ %s) %s)" % (
                                KW("net"), KW("rename"), cid, idx, q("%s[%d]" % (C["name"], idx)),
                                joined(ends))))
                        nets.append(group)
                        eD["cables"].append(ec)
                # bit nets of one bus may be interleaved with other nets
                flat_nets = []
                if opts.get("interleave", True) and ch.flag(1, 3):
                    pending = [list(g) for g in nets]
                    while any(pending):
                        k = ch.n(len(pending))
                        for _ in range(len(pending)):
                            if pending[k]:
                                break
                            k = (k + 1) % len(pending)
                        flat_nets.append(pending[k].pop(0))
                else:
                    for g in nets:
                        flat_nets.extend(g)
                out.extend(line for _, line in flat_nets)
                # cables appear in the netlist in the order of their first net in the text
                first = {}
                for pos, (ec, _) in enumerate(flat_nets):
                    first.setdefault(id(ec), pos)
                eD["cables"].sort(key=lambda ec: first.get(id(ec), 10 ** 6))
                out.append("        )")
            out.append("      )")
            out.append("    )")
            eL["defs"].append(eD)
        out.append("  )")
        expected["libs"].append(eL)
    if c.get("top") and c["top"].get("ref") and isinstance(c["top"]["ref"], list):
        tli, tdi = c["top"]["ref"]
        tname = c["top"]["name"] or "top"
        t_ids = Ids()
        tid, tren = t_ids.make(tname, ch)
        cv = swapcase_some(def_id[tli][tdi], ch) if opts.get("design_case", True) else def_id[tli][tdi]
        lv = swapcase_some(lib_id[tli], ch) if opts.get("design_case", True) else lib_id[tli]
        if cv != def_id[tli][tdi] or lv != lib_id[tli]:
            info["case_varied_refs"] += 1
            info["design_case_varied"] = 1
        out.append("  (%s %s (%s %s (%s %s)))" % (KW("design"), namedef(tid, tren, tname), KW("cellRef"), cv,
                                                  KW("libraryRef"), lv))
        expected["top"] = {"name": tname, "ref": [tli, tdi]}
    out.append(")")
    return "\n".join(out) + "\n", expected, info


def thaw(v):
    """inverse of vf.model.freeze for dict values"""
    if isinstance(v, dict) and "__dict__" in v:
        return {k: thaw(x) for k, x in v["__dict__"]}
    if isinstance(v, list):
        return [thaw(x) for x in v]
    return v


def observed(netlist):
    """what the reader built, in the vocabulary of `expected`"""
    from vf import model

    c = model.canon(netlist)
    out = {"name": c["name"], "libs": [], "top": None}
    for L in c["libs"]:
        eL = {"name": L["name"], "id": thaw(L["data"].get("EDIF.identifier")), "defs": []}
        for D in L["defs"]:
            eD = {"name": D["name"], "id": thaw(D["data"].get("EDIF.identifier")),
                  "ports": [{"name": P["name"], "id": thaw(P["data"].get("EDIF.identifier")), "dir": P["dir"],
                             "w": P["w"], "arr": P["arr"]} for P in D["ports"]],
                  "cables": [{"name": C["name"], "id": thaw(C["data"].get("EDIF.identifier")), "w": C["w"],
                              "lo": C["lo"], "arr": C["arr"], "wires": C["wires"]} for C in D["cables"]],
                  "children": [{"name": I["name"], "id": thaw(I["data"].get("EDIF.identifier")),
                                "ref": I["ref"],
                                "props": [dict(p) for p in (thaw(I["data"].get("EDIF.properties")) or [])]}
                               for I in D["children"]]}
            eL["defs"].append(eD)
        out["libs"].append(eL)
    if c["top"]:
        out["top"] = {"name": c["top"]["name"], "ref": c["top"]["ref"]}
    return out
