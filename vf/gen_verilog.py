"""Independent structural-Verilog writer and bit-level view of a netlist.

abstract design (Hypothesis-drawn JSON) -> Verilog text + expected view;  netlist -> observed view.
Shares no code with spydrnet.composers / spydrnet.parsers."""
import re

from hypothesis import strategies as st

from vf.gen_edif import Chooser

MOD_NAMES = ["top", "alu", "core", "m0", "m1", "Sub", "blk_a", "\\esc.mod "]
PRIM_NAMES = ["LUT2", "FDRE", "BUF", "OBUF", "AND3", "\\prim$x "]
NET_NAMES = ["a", "b", "c", "d", "clk", "data", "q", "sel", "n1", "n2", "w", "\\esc[3] ", "\\a.b ", "y", "z",
             "bus", "t0", "t1"]
INST_NAMES = ["u0", "u1", "u2", "u3", "i_a", "i_b", "\\u.4 ", "g0", "g1", "r0"]
PORT_NAMES = ["I0", "I1", "O", "A", "B", "C", "D", "Q", "\\P[0] "]
DIRS = ["input", "output", "inout"]


def ir_name(n):
    """name as stored in the IR: escaped identifiers lose the terminating blank"""
    return n.strip()


@st.composite
def designs(draw, max_mods=4, max_prims=3, max_insts=4, max_w=4):
    def width():
        # now and then past 9: two-digit indices
        if draw(st.integers(0, 15)) == 0:
            return draw(st.integers(10, 17))
        return draw(st.integers(1, max_w))

    nprims = draw(st.integers(1, max_prims))
    prims = []
    used = set()
    for k in range(nprims):
        name = draw(st.sampled_from([n for n in PRIM_NAMES if n not in used]))
        used.add(name)
        nports = draw(st.integers(1, 4))
        pn = draw(st.lists(st.sampled_from(PORT_NAMES), min_size=nports, max_size=nports, unique=True))
        ports = [{"name": p, "dir": draw(st.sampled_from(DIRS)), "w": width()}
                 for p in pn]
        declared = draw(st.booleans())
        positional = (not declared) and draw(st.integers(0, 3)) == 0
        # (the width of a never-declared, positionally connected port is whatever its uses imply:
        # every positional use below connects the full width so that the design is unambiguous)
        prims.append({"name": name, "ports": ports, "declared": declared,
                      "positional": positional,
                      "ansi": draw(st.booleans())})
    nmods = draw(st.integers(1, max_mods))
    mods = []
    mused = set()
    for i in range(nmods):
        name = draw(st.sampled_from([n for n in MOD_NAMES if n not in mused]))
        mused.add(name)
        nports = draw(st.integers(0, 4))
        names = draw(st.lists(st.sampled_from(NET_NAMES), min_size=nports + 1, max_size=nports + 4,
                              unique=True))
        ports = [{"name": names[k], "dir": draw(st.sampled_from(DIRS)), "w": width()}
                 for k in range(nports)]
        alias_names = []
        if ports and draw(st.integers(0, 4)) == 0:
            ap = ports[draw(st.integers(0, len(ports) - 1))]
            # header alias  .p({n_hi, ..., n_lo})  with single-bit internal nets (the documented limit)
            ap["alias"] = ["%s_al%d" % (ap["name"].strip().strip("\\").replace("[", "_").replace("]", "_")
                                        .replace(".", "_"), k) for k in reversed(range(ap["w"]))]
            alias_names = list(ap["alias"])
        wires = []
        implicit = []
        for nm in names[nports:]:
            kind = draw(st.integers(0, 4))
            if kind == 0:
                implicit.append(nm)
            else:
                w = width()
                lsb = draw(st.sampled_from([0, 0, 1, 4])) if w > 1 or draw(st.booleans()) else 0
                ranged = w > 1 or draw(st.integers(0, 3)) == 0
                wires.append({"name": nm, "msb": lsb + w - 1, "lsb": lsb, "ranged": ranged})
        nets = []  # (name, lsb, width)
        for p in ports:
            if "alias" in p:
                for an in p["alias"]:
                    nets.append((an, 0, 1))
            else:
                nets.append((p["name"], 0, p["w"]))
        for wr in wires:
            nets.append((wr["name"], wr["lsb"] if wr["ranged"] else 0,
                         wr["msb"] - wr["lsb"] + 1 if wr["ranged"] else 1))
        nimp = len(nets)
        for nm in implicit:
            nets.append((nm, 0, 1))

        def expr(width_cap):
            """list of items MSB first, total width <= width_cap (maybe 0 items = empty)"""
            items = []
            left = width_cap
            for _ in range(draw(st.integers(1, 3))):
                if left <= 0:
                    break
                if draw(st.integers(0, 7)) == 0:
                    items.append({"const": draw(st.integers(0, 1))})
                    left -= 1
                    continue
                ni = draw(st.integers(0, len(nets) - 1))
                nm, lsb, w = nets[ni]
                if ni >= nimp:
                    items.append({"net": nm, "whole": True, "hi": 0, "lo": 0})
                    left -= 1
                    continue
                take = draw(st.integers(1, min(w, left)))
                lo = lsb + draw(st.integers(0, w - take))
                hi = lo + take - 1
                whole = take == w and draw(st.booleans())
                items.append({"net": nm, "whole": whole, "hi": hi, "lo": lo,
                              "scalar": w == 1 and not _is_ranged(wires, ports, nm)})
                left -= take
            return items

        def expr_exact(width):
            """items MSB first whose widths add up to exactly `width`"""
            items = []
            left = width
            while left > 0:
                if draw(st.integers(0, 5)) == 0:
                    items.append({"const": draw(st.integers(0, 1))})
                    left -= 1
                    continue
                ni = draw(st.integers(0, len(nets) - 1))
                nm, lsb, w = nets[ni]
                if ni >= nimp:
                    items.append({"net": nm, "whole": True, "hi": 0, "lo": 0})
                    left -= 1
                    continue
                take = draw(st.integers(1, min(w, left)))
                lo = lsb + draw(st.integers(0, w - take))
                items.append({"net": nm, "whole": take == w and draw(st.booleans()), "hi": lo + take - 1,
                              "lo": lo, "scalar": w == 1 and not _is_ranged(wires, ports, nm)})
                left -= take
            return items

        insts = []
        iused = set()
        targets = [("m", j) for j in range(i)] + [("p", k) for k in range(nprims)]
        ninst = draw(st.integers(0, max_insts))
        for _ in range(ninst):
            free = [n for n in INST_NAMES if n not in iused]
            if not free:
                break
            iname = draw(st.sampled_from(free))
            if draw(st.integers(0, 5)) == 0:
                # cells and nets are separate name spaces in the netlist (synthesis output numbers
                # them separately): a cell may be called like a net of its module
                same = [n[0] for n in nets if n[0] not in iused]
                if same:
                    iname = draw(st.sampled_from(same))
            iused.add(iname)
            kind, idx = draw(st.sampled_from(targets))
            tports = mods[idx]["ports"] if kind == "m" else prims[idx]["ports"]
            positional = prims[idx]["positional"] if kind == "p" and not prims[idx]["declared"] \
                else draw(st.integers(0, 3)) == 0
            conns = []
            if positional:
                n = draw(st.integers(0, len(tports)))
                for pi in range(n):
                    if kind == "p" and not prims[idx]["declared"]:
                        e = expr_exact(tports[pi]["w"])
                    else:
                        e = expr(tports[pi]["w"])
                    if not e:
                        break
                    conns.append([pi, e])
            else:
                order = draw(st.permutations(list(range(len(tports)))))
                for pi in order:
                    m = draw(st.integers(0, 5))
                    if m == 0:
                        continue          # port not mentioned
                    if m == 1:
                        conns.append([pi, []])   # .p()
                    else:
                        conns.append([pi, expr(tports[pi]["w"])])
            params = {}
            if draw(st.integers(0, 2)) == 0:
                params = draw(st.dictionaries(st.sampled_from(["INIT", "WIDTH", "MODE"]),
                                              st.sampled_from(["4'h8", "2", "\"FAST\"", "16'hABCD", "\"boot image.mem\"",
                                                               "\"a\tb  c\""]),
                                              min_size=1, max_size=2))
            attrs = {}
            if draw(st.integers(0, 2)) == 0:
                attrs = draw(st.dictionaries(st.sampled_from(["KEEP", "LOC", "DONT_TOUCH"]),
                                             st.one_of(st.none(), st.sampled_from(["\"X0Y1\"", "1", "\"yes\"",
                                                                                   "\"X0 Y1\""])),
                                             min_size=1, max_size=2))
            insts.append({"name": iname, "target": [kind, idx], "positional": positional, "conns": conns,
                          "params": params, "attrs": attrs,
                          "split_attrs": draw(st.booleans())})
        assigns = []
        for _ in range(draw(st.integers(0, 2))):
            cands = [n for n in nets[:nimp]]
            if len(cands) < 2:
                break
            a = draw(st.sampled_from(cands))
            b = draw(st.sampled_from(cands))
            w = draw(st.integers(1, min(a[2], b[2])))
            alo = a[1] + draw(st.integers(0, a[2] - w))
            blo = b[1] + draw(st.integers(0, b[2] - w))
            assigns.append([{"net": a[0], "hi": alo + w - 1, "lo": alo, "whole": w == a[2] and draw(st.booleans()),
                             "scalar": a[2] == 1 and not _is_ranged(wires, ports, a[0])},
                            {"net": b[0], "hi": blo + w - 1, "lo": blo, "whole": w == b[2] and draw(st.booleans()),
                             "scalar": b[2] == 1 and not _is_ranged(wires, ports, b[0])}])
        mods.append({"name": name, "ports": ports, "wires": wires, "implicit": implicit, "insts": insts,
                     "assigns": assigns, "ansi": draw(st.booleans()),
                     "attrs": draw(st.one_of(st.just({}), st.just({"keep_hierarchy": "\"yes\""}))),
                     "group_wires": draw(st.booleans())})
    # exactly one root: every module but the last must be instantiated by a later one
    for i in range(nmods - 1):
        if not any(inst["target"] == ["m", i] for m in mods[i + 1:] for inst in m["insts"]):
            j = draw(st.integers(i + 1, nmods - 1))
            free = [n for n in INST_NAMES + ["x0", "x1", "x2", "x3"] if n not in
                    {x["name"] for x in mods[j]["insts"]}]
            mods[j]["insts"].append({"name": free[0], "target": ["m", i], "positional": False, "conns": [],
                                     "params": {}, "attrs": {}, "split_attrs": False})
    return {"mods": mods, "prims": prims,
            "order": draw(st.lists(st.integers(0, 9), min_size=1, max_size=6)),
            "stream": draw(st.lists(st.integers(0, 63), min_size=6, max_size=30))}


def _is_ranged(wires, ports, name):
    for wr in wires:
        if wr["name"] == name:
            return wr["ranged"]
    for p in ports:
        if p["name"] == name:
            return p["w"] > 1
    return False


# ------------------------------------------------------------------------------------------------


def render(d):
    """-> (text, expected view, info)"""
    ch = Chooser(d["stream"])
    info = {"concat": 0, "slice": 0, "used_before_decl": 0, "partial": 0, "positional": 0, "assign": 0,
            "const": 0, "trailing_comment": 0, "multi_decl": 0}
    mods, prims = d["mods"], d["prims"]

    def comment():
        if ch.flag(1, 5):
            return ["  // a line comment\n", "  /* block\n     comment */\n"][ch.n(2)]
        return ""

    def rng(w, lsb=0):
        return "[%d:%d] " % (lsb + w - 1, lsb) if w > 1 else ""

    def item_txt(it):
        if "const" in it:
            info["const"] += 1
            return "1'b%d" % it["const"]
        if it.get("whole") or it.get("scalar"):
            return it["net"]
        if it["hi"] == it["lo"]:
            info["slice"] += 1
            return "%s[%d]" % (it["net"], it["lo"])
        info["slice"] += 1
        return "%s[%d:%d]" % (it["net"], it["hi"], it["lo"])

    def expr_txt(e):
        if len(e) == 1 and ch.flag(3, 4):
            return item_txt(e[0])
        info["concat"] += 1
        return "{" + (", " if ch.flag() else " ,").join(item_txt(x) for x in e) + "}"

    def attrs_txt(attrs, split):
        if not attrs:
            return ""
        parts = ["%s = %s" % (k, v) if v is not None else k for k, v in attrs.items()]
        if split and len(parts) > 1:
            return " ".join("(* %s *)" % p for p in parts) + "\n  "
        return "(* %s *)\n  " % ", ".join(parts)

    def header(name, ports, ansi, params=None):
        out = "module %s" % name
        if any("alias" in p for p in ports):
            ansi = False
        if ansi:
            decl = ["%s %s%s" % (p["dir"], rng(p["w"]), p["name"]) for p in ports]
            out += "(%s);\n" % ", ".join(decl)
        else:
            out += "(%s);\n" % ", ".join(
                ".%s({%s})" % (p["name"], ", ".join(p["alias"])) if "alias" in p else p["name"]
                for p in ports)
            group_ports = ch.flag(1, 2)
            done = set()
            for k, p in enumerate(ports):
                if k in done:
                    continue
                if "alias" in p:
                    info["alias"] = info.get("alias", 0) + 1
                    for an in p["alias"]:
                        out += "  %s %s;\n" % (p["dir"], an)
                    continue
                names = [p["name"]]
                if group_ports:
                    # several ports of one direction and range in one statement: input [3:0] a, b;
                    for k2 in range(k + 1, len(ports)):
                        q_ = ports[k2]
                        if k2 not in done and "alias" not in q_ and q_["dir"] == p["dir"] \
                                and q_["w"] == p["w"]:
                            names.append(q_["name"])
                            done.add(k2)
                    if len(names) > 1:
                        info["ports_in_one_statement"] = info.get("ports_in_one_statement", 0) + 1
                out += "  %s %s%s%s;\n%s" % (p["dir"], "wire " if ch.flag(1, 4) else "", rng(p["w"]),
                                              ", ".join(names), comment())
        return out

    blocks = []  # (key, text)
    for k, P in enumerate(prims):
        if not P["declared"]:
            continue
        txt = "`celldefine\n" + header(P["name"], P["ports"], P["ansi"])
        if ch.flag():
            txt += "  specify\n  endspecify\n"
        txt += "endmodule\n`endcelldefine\n"
        blocks.append((("p", k), txt))
    expected = {"top": ir_name(mods[-1]["name"]), "mods": {}}
    for i, M in enumerate(mods):
        txt = attrs_txt(M["attrs"], False).replace("\n  ", "\n") + header(M["name"], M["ports"], M["ansi"])
        # wires; several names may share one declaration
        pend = list(M["wires"])
        while pend:
            wr = pend.pop(0)
            same = [x for x in pend if x["ranged"] == wr["ranged"] and (
                not wr["ranged"] or (x["msb"], x["lsb"]) == (wr["msb"], wr["lsb"]))]
            r = "[%d:%d] " % (wr["msb"], wr["lsb"]) if wr["ranged"] else ""
            if M["group_wires"] and same:
                info["multi_decl"] += 1
                names = [wr["name"]] + [x["name"] for x in same]
                for x in same:
                    pend.remove(x)
                txt += "  wire %s%s;\n" % (r, ", ".join(names))
            else:
                txt += "  %s %s%s;\n" % (["wire", "wire", "reg"][ch.n(3)], r, wr["name"])
            txt += comment()
        eM = {"lib": "work", "prim": False, "ports": [{"name": ir_name(p["name"]), "dir": p["dir"],
                                                        "w": p["w"], "lo": 0} for p in M["ports"]],
              "cables": {}, "conn": {}, "insts": {}, "assigns": []}
        for p in M["ports"]:
            if "alias" in p:
                for k, an in enumerate(reversed(p["alias"])):
                    eM["cables"][an] = {"lo": 0, "w": 1}
                    eM["conn"].setdefault("%s[0]" % an, []).append(["port", ir_name(p["name"]), k])
                continue
            eM["cables"][ir_name(p["name"])] = {"lo": 0, "w": p["w"]}
            for b in range(p["w"]):
                eM["conn"].setdefault("%s[%d]" % (ir_name(p["name"]), b), []).append(
                    ["port", ir_name(p["name"]), b])
        for wr in M["wires"]:
            if wr["ranged"]:
                eM["cables"][ir_name(wr["name"])] = {"lo": wr["lsb"], "w": wr["msb"] - wr["lsb"] + 1}
            else:
                eM["cables"][ir_name(wr["name"])] = {"lo": 0, "w": 1}

        def bits_of(e):
            """expression -> list of (cable, bit) LSB first"""
            out = []
            for it in reversed(e):
                if "const" in it:
                    cn = "\\<const%d>" % it["const"]
                    eM["cables"].setdefault(cn, {"lo": 0, "w": 1})
                    out.append((cn, 0))
                else:
                    cn = ir_name(it["net"])
                    if cn not in eM["cables"]:
                        eM["cables"][cn] = {"lo": 0, "w": 1}  # implicit net
                    if it.get("whole") or it.get("scalar"):
                        c = eM["cables"][cn]
                        out.extend((cn, c["lo"] + b) for b in range(c["w"]))
                    else:
                        out.extend((cn, b) for b in range(it["lo"], it["hi"] + 1))
            return out

        for inst in M["insts"]:
            kind, idx = inst["target"]
            T = mods[idx] if kind == "m" else prims[idx]
            if kind == "m" and d["_pos"][("m", idx)] > d["_pos"][("m", i)]:
                info["used_before_decl"] += 1
            txt += "  " + attrs_txt(inst["attrs"], inst["split_attrs"])
            txt += T["name"]
            if inst["params"]:
                txt += " #(%s)" % ", ".join(".%s(%s)" % kv for kv in inst["params"].items())
            txt += " %s (" % inst["name"]
            parts = []
            for pi, e in inst["conns"]:
                if inst["positional"]:
                    parts.append(expr_txt(e))
                else:
                    parts.append(".%s(%s)" % (T["ports"][pi]["name"], expr_txt(e) if e else ""))
                bits = bits_of(e)
                if e and len(bits) < T["ports"][pi]["w"]:
                    info["partial"] += 1
                pname = ir_name(T["ports"][pi]["name"])
                if inst["positional"] and kind == "p" and not T["declared"]:
                    pname = "#%d" % pi
                for k, (cn, b) in enumerate(bits):
                    eM["conn"].setdefault("%s[%d]" % (cn, b), []).append(
                        ["inst", ir_name(inst["name"]), pname, k])
            if inst["positional"]:
                info["positional"] += 1
            txt += (", " if ch.flag() else ",\n      ").join(parts) + ");\n" + comment()
            eM["insts"][ir_name(inst["name"])] = {
                "mod": ir_name(T["name"]), "params": dict(inst["params"]),
                "attrs": dict(inst["attrs"])}
        for lhs, rhs in M["assigns"]:
            info["assign"] += 1
            txt += "  assign %s = %s;\n" % (item_txt(lhs), item_txt(rhs))
            ob, ib = bits_of([lhs]), bits_of([rhs])
            eM["assigns"].append([len(ob), [list(x) for x in ob], [list(x) for x in ib]])
        txt += "endmodule\n"
        blocks.append((("m", i), txt))
        for v in eM["conn"].values():
            v.sort(key=lambda e: [str(x) for x in e])
        eM["assigns"].sort(key=repr)
        expected["mods"][ir_name(M["name"])] = eM
    # primitives: declared (celldefine) or inferred from use
    for k, P in enumerate(prims):
        used = [(M, inst) for M in mods for inst in M["insts"] if inst["target"] == ["p", k]]
        if not P["declared"] and not used:
            continue
        if P["declared"]:
            ports = [{"name": ir_name(p["name"]), "dir": p["dir"], "w": p["w"], "lo": 0} for p in P["ports"]]
            cables = {ir_name(p["name"]): {"lo": 0, "w": p["w"]} for p in P["ports"]}
            conn = {}
            for p in P["ports"]:
                for b in range(p["w"]):
                    conn["%s[%d]" % (ir_name(p["name"]), b)] = [["port", ir_name(p["name"]), b]]
        else:
            widths = {}
            for M, inst in used:
                for pi, e in inst["conns"]:
                    w = sum(1 if "const" in it else (
                        _net_width(M, it) if (it.get("whole") or it.get("scalar")) else it["hi"] - it["lo"] + 1)
                        for it in e) if e else 1
                    key = "#%d" % pi if P["positional"] else ir_name(P["ports"][pi]["name"])
                    widths[key] = max(widths.get(key, 0), w)
            ports = [{"name": None if k2.startswith("#") else k2, "key": k2, "dir": "undefined", "w": w,
                      "lo": 0} for k2, w in widths.items()]
            cables, conn = {}, {}
        expected["mods"][ir_name(P["name"])] = {
            "lib": "hdi_primitives", "prim": not P["declared"], "ports": ports, "cables": cables,
            "conn": conn, "insts": {}, "assigns": []}
    return blocks, expected, info


def _net_width(M, it):
    nm = it["net"]
    for p in M["ports"]:
        if p["name"] == nm:
            return p["w"]
    for wr in M["wires"]:
        if wr["name"] == nm:
            return wr["msb"] - wr["lsb"] + 1 if wr["ranged"] else 1
    return 1


def in_domain(d):
    """generator invariants (a structurally shrunk case may break them): exactly one root module which
    is the last one, references point backwards, assign sides have equal width"""
    mods = d.get("mods") or []
    if not mods or not d.get("stream") or not d.get("order"):
        return False
    used = set()
    for i, M in enumerate(mods):
        for inst in M.get("insts", []):
            kind, idx = inst["target"]
            if kind == "m":
                if idx >= i:
                    return False
                used.add(idx)
            elif idx >= len(d.get("prims", [])):
                return False
            T = mods[idx] if kind == "m" else d["prims"][idx]
            for pi, e in inst["conns"]:
                if pi >= len(T["ports"]):
                    return False
        declared = {}
        for p in M.get("ports", []):
            if "alias" in p:
                for an in p["alias"]:
                    declared[an] = (0, 1)
            else:
                declared[p["name"]] = (0, p["w"])
        for wr in M.get("wires", []):
            declared[wr["name"]] = (wr["lsb"], wr["msb"] - wr["lsb"] + 1) if wr["ranged"] else (0, 1)

        def ok(it):
            if "const" in it:
                return True
            if it["net"] in declared:
                lsb, w = declared[it["net"]]
                return lsb <= it["lo"] <= it["hi"] <= lsb + w - 1 and (
                    not it.get("whole") or it["hi"] - it["lo"] + 1 == w)
            return it["net"] in M.get("implicit", []) and it["hi"] == it["lo"]
        for inst in M.get("insts", []):
            kind, idx = inst["target"]
            T = mods[idx] if kind == "m" else d["prims"][idx]
            for pi, e in inst["conns"]:
                if not all(ok(it) for it in e):
                    return False
                if kind == "p" and not T["declared"] and inst.get("positional"):
                    # positional use of a never-declared module: always the full width
                    w = sum(1 if "const" in it else it["hi"] - it["lo"] + 1 for it in e)
                    if w != T["ports"][pi]["w"]:
                        return False
        for lhs, rhs in M.get("assigns", []):
            if lhs["hi"] - lhs["lo"] != rhs["hi"] - rhs["lo"] or not ok(lhs) or not ok(rhs) \
                    or lhs["net"] not in declared or rhs["net"] not in declared:
                return False
    return used == set(range(len(mods) - 1))


def text_of(d):
    """emission order: a drawn permutation of module and celldefine blocks"""
    keys = [("m", i) for i in range(len(d["mods"]))] + [("p", k) for k, P in enumerate(d["prims"])
                                                       if P["declared"]]
    order = d["order"]
    ranked = sorted(range(len(keys)), key=lambda j: (order[j % len(order)], j))
    d["_pos"] = {keys[j]: r for r, j in enumerate(ranked)}
    blocks, expected, info = render(d)
    bm = dict(blocks)
    ch = Chooser(d["stream"][::-1])
    text = "// generated by vf.gen_verilog\n"
    if ch.flag(1, 3):
        text += "`timescale 1 ps / 1 ps\n"
    for j in ranked:
        text += bm[keys[j]] + "\n"
    if ch.flag(1, 4):
        text += "// trailing comment" + ("\n" if ch.flag() else "")
        info["trailing_comment"] = 1
    del d["_pos"]
    if "\\" in text and ch.flag(1, 2):
        # an escaped identifier ends at any white space, not only at a blank
        def term(m):
            return m.group(1) + [" ", "\t", "\n", "\t "][ch.n(4)]
        text = re.sub(r"(\\\S+) ", term, text)
        info["escaped_terminator_varied"] = 1
    return text, expected, info


# ------------------------------------------------------------------------------------------------


def view(netlist):
    """bit-level, name-keyed view of a (Verilog-style) netlist"""
    out = {"top": None, "mods": {}}
    t = netlist.top_instance
    if t is not None and t.reference is not None:
        out["top"] = t.reference.name
    for L in netlist.libraries:
        if L.name == "SDN_VERILOG_ASSIGNMENT":
            continue
        for D in L.definitions:
            eM = {"lib": L.name, "prim": bool(D.data.get("VERILOG.primitive", False)), "ports": [],
                  "cables": {}, "conn": {}, "insts": {}, "assigns": []}
            for pi, P in enumerate(D.ports):
                e = {"name": P.name, "dir": {"IN": "input", "OUT": "output", "INOUT": "inout",
                                             "UNDEFINED": "undefined"}[P.direction.name],
                     "w": len(P.pins), "lo": P.lower_index}
                if P.name is None:
                    e["key"] = "#%d" % pi
                eM["ports"].append(e)
            pinpos = {}
            for P in D.ports:
                for b, p in enumerate(P.pins):
                    pinpos[id(p)] = ["port", P.name, P.lower_index + b]
            assigns = {}
            for C in D.cables:
                eM["cables"][C.name] = {"lo": C.lower_index, "w": len(C.wires)}
                for b, w in enumerate(C.wires):
                    ends = []
                    for p in w.pins:
                        if hasattr(p, "inner_pin"):
                            I, ip = p.instance, p.inner_pin
                            R = I.reference
                            if R is not None and R.library is not None \
                                    and R.library.name == "SDN_VERILOG_ASSIGNMENT":
                                a = assigns.setdefault(id(I), {"w": len(ip.port.pins), "o": {}, "i": {}})
                                a[ip.port.name][list(ip.port.pins).index(ip)] = [C.name, C.lower_index + b]
                                continue
                            pname = ip.port.name
                            if pname is None:
                                pname = "#%d" % list(R.ports).index(ip.port)
                            ends.append(["inst", I.name, pname,
                                         ip.port.lower_index + list(ip.port.pins).index(ip)])
                        else:
                            ends.append(pinpos.get(id(p), ["?"]))
                    if ends:
                        ends.sort(key=lambda e: [str(x) for x in e])
                        eM["conn"]["%s[%d]" % (C.name, C.lower_index + b)] = ends
            for I in D.children:
                R = I.reference
                if R is not None and R.library is not None and R.library.name == "SDN_VERILOG_ASSIGNMENT":
                    a = assigns.setdefault(id(I), {"w": len(R.ports[0].pins), "o": {}, "i": {}})
                    continue
                eM["insts"][I.name] = {"mod": R.name if R is not None else None,
                                       "params": dict(I.data.get("VERILOG.Parameters", {}) or {}),
                                       "attrs": dict(I.data.get("VERILOG.InlineConstraints", {}) or {})}
            for a in assigns.values():
                eM["assigns"].append([a["w"], [a["o"].get(k) for k in range(a["w"])],
                                      [a["i"].get(k) for k in range(a["w"])]])
            eM["assigns"].sort(key=repr)
            out["mods"][D.name] = eM
    return out
