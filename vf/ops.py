"""Operation histories over the public editing API (DESIGN.md 2.4).

A history is a list of JSON ops, all of one generic shape
  {"op": name, "t": int, "a": int, "b": int, "own": bool, "k": int, "pos": int|None, "s": str|None,
   "perm": [int], "mode": int, "key": str, "val": json}
The interpreter keeps a universe: the ordered pool of every object ever created in the case.  Indices
are taken modulo the pool of the right class, so every op is applicable; `own` biases an argument
towards a valid choice (a member of the target container, a parent-less element, an unconnected pin of
the right definition) and away from it otherwise, which is how the rate of refused calls is
controlled.  Every call runs under try/except Exception; monitors see the resolved call before and
after."""
from hypothesis import strategies as st

FIRST_CLASS = ["netlist", "library", "definition", "port", "cable", "instance"]
KINDS = FIRST_CLASS + ["pin", "wire", "proxy"]


class Call:
    __slots__ = ("name", "target", "args", "fn", "meta", "result")

    def __init__(self, name, target, args, fn, **meta):
        self.name = name
        self.target = target
        self.args = args
        self.fn = fn
        self.meta = meta
        self.result = None


def ops_parent(x):
    for attr in ("netlist", "library", "definition", "parent"):
        if hasattr(x, attr):
            v = getattr(x, attr)
            if not callable(v):
                return v
    return None


def ops_members(x):
    n = 0
    for attr in ("libraries", "definitions", "ports", "cables", "children"):
        if hasattr(x, attr):
            n += len(getattr(x, attr))
    return n


def self_contained(N):
    """Netlist.clone() is documented for self-contained netlists ("all references are internal to
    the netlist that has been cloned"): every instance of it references a definition inside it"""
    inside = {id(D) for L in N.libraries for D in L.definitions}
    insts = [I for L in N.libraries for D in L.definitions for I in D.children]
    if N.top_instance is not None:
        insts.append(N.top_instance)
    return all(getattr(I, "reference", None) is None or id(I.reference) in inside for I in insts)


def bulk_arg(xs, mode):
    """the bulk removers take any iterable: list, set, tuple or a one-shot generator"""
    m = mode % 4
    if m == 0:
        return list(xs)
    if m == 1:
        return set(xs)
    if m == 2:
        return (x for x in list(xs))
    return tuple(xs)


class Universe:
    def __init__(self):
        self.pool = {k: [] for k in KINDS}
        self.seen = set()
        self.outer_seen = {}
        self.keep = []  # keep every object alive so ids stay unique
        self.cloned_ids = set()

    def mark_cloned(self, c):
        """remember every first-class element inside a clone result"""
        before = set(self.seen)
        self.absorb(c)
        self.cloned_ids |= (self.seen - before)

    def add(self, kind, obj):
        if obj is None or id(obj) in self.seen:
            return
        self.seen.add(id(obj))
        self.pool[kind].append(obj)

    def absorb(self, obj):
        """register obj and everything it contains"""
        import spydrnet as sdn

        if obj is None:
            return
        if isinstance(obj, sdn.Netlist):
            self.add("netlist", obj)
            for L in obj.libraries:
                self.absorb(L)
            t = obj.top_instance
            if t is not None and isinstance(t, sdn.Instance):
                self.absorb(t)
        elif isinstance(obj, sdn.Library):
            self.add("library", obj)
            for D in obj.definitions:
                self.absorb(D)
        elif isinstance(obj, sdn.Definition):
            self.add("definition", obj)
            for P in obj.ports:
                self.absorb(P)
            for C in obj.cables:
                self.absorb(C)
            for I in obj.children:
                self.absorb(I)
        elif isinstance(obj, sdn.Port):
            self.add("port", obj)
            for p in obj.pins:
                self.add("pin", p)
        elif isinstance(obj, sdn.Cable):
            self.add("cable", obj)
            for w in obj.wires:
                self.add("wire", w)
        elif isinstance(obj, sdn.Instance):
            self.add("instance", obj)
        elif isinstance(obj, sdn.InnerPin):
            self.add("pin", obj)
        elif isinstance(obj, sdn.Wire):
            self.add("wire", obj)
        elif isinstance(obj, sdn.OuterPin):
            self.outer_seen.setdefault(id(obj), obj)
        elif isinstance(obj, (list, tuple)):
            for x in obj:
                self.absorb(x)

    def refresh_outer(self):
        import spydrnet as sdn

        for N in self.pool["netlist"]:
            t = N.top_instance
            if t is not None and isinstance(t, sdn.Instance) and id(t) not in self.seen:
                self.add("instance", t)
        for D in self.pool["definition"]:
            for r in D.references:
                if id(r) not in self.seen:
                    self.add("instance", r)
        for I in self.pool["instance"]:
            for op in I.pins.values():
                if id(op) not in self.outer_seen:
                    self.outer_seen[id(op)] = op

    def first_class(self):
        out = []
        for k in FIRST_CLASS:
            out.extend(self.pool[k])
        return out

    def pick(self, kind, idx):
        p = self.pool[kind]
        if not p:
            return None
        if idx >= 28 and len(p) > 3:
            # high draws go to the most recently created third of the pool (fresh clones, elements
            # of a half-finished edit): follow-up calls on what was just made are where state leaks
            recent = max(1, len(p) // 3)
            return p[len(p) - 1 - (idx % recent)]
        return p[idx % len(p)]


def _pick(lst, idx):
    return lst[idx % len(lst)] if lst else None


class Interpreter:
    def __init__(self, universe, monitors=()):
        self.U = universe
        self.monitors = list(monitors)
        self.trace = []

    # -------------------------------------------------------------------------------------------
    def run(self, ops):
        for op in ops:
            self.step(op)

    def step(self, op):
        call = self.resolve(op)
        if call is None:
            self.trace.append((op.get("op"), "skipped", None))
            return None
        for m in self.monitors:
            m.before(self.U, call)
        accepted, exc = True, None
        try:
            call.result = call.fn()
        except Exception as e:  # noqa: the API refuses with AssertionError/ValueError/KeyError/...
            accepted, exc = False, e
        if accepted:
            self.U.absorb(call.result)
        self.U.refresh_outer()
        self.trace.append((call.name, "ok" if accepted else type(exc).__name__, None))
        for m in self.monitors:
            m.after(self.U, call, accepted, exc)
        return accepted

    # -------------------------------------------------------------------------------------------
    def resolve(self, op):
        import spydrnet as sdn

        U = self.U
        name = op.get("op")
        t, a, b = op.get("t", 0), op.get("a", 0), op.get("b", 0)
        own = bool(op.get("own", True))
        k = op.get("k", 1)
        pos = op.get("pos")
        s = op.get("s")
        perm = op.get("perm") or [0]
        mode = op.get("mode", 0)
        key = op.get("key", "K")
        val = op.get("val")
        props = None
        if mode % 3 == 0 and s is not None:
            props = {"EDIF.identifier": IDENTS[b % len(IDENTS)]}

        def member(container_list, kind):
            if own and len(container_list):
                return container_list[a % len(container_list)]
            return U.pick(kind, a)

        def orphan(kind, parent_attr):
            if own:
                free = [x for x in U.pool[kind] if getattr(x, parent_attr) is None]
                if free:
                    return free[a % len(free)]
            return U.pick(kind, a)

        def several(container_list, kind):
            out = []
            for i, v in enumerate(perm[: max(1, k + 1)]):
                if (own or v % 3) and len(container_list):
                    out.append(container_list[(a + v + i) % len(container_list)])
                else:
                    x = U.pick(kind, a + v + i)
                    if x is not None:
                        out.append(x)
            return out

        def reorder(cur, kind):
            cur = list(cur)
            order = sorted(range(len(cur)), key=lambda i: (perm[i % len(perm)], i))
            new = [cur[i] for i in order]
            m = mode % 5
            if m == 1 and new:
                new[-1] = new[0]
            elif m == 2 and new:
                new.pop()
            elif m == 3:
                x = U.pick(kind, a)
                if x is not None:
                    new.append(x)
            return cur, new

        # ---------------- netlist
        if name == "nl.new":
            return Call(name, None, [s], lambda: sdn.Netlist(name=s, properties=props))
        if name == "lib.new":
            return Call(name, None, [s], lambda: sdn.Library(name=s, properties=props))
        if name == "def.new":
            return Call(name, None, [s], lambda: sdn.Definition(name=s, properties=props))
        if name == "inst.new":
            return Call(name, None, [s], lambda: sdn.Instance(name=s, properties=props))
        if name == "port.new":
            def mk():
                P = sdn.Port(name=s, properties=props)
                if k:
                    P.create_pins(k)
                return P
            return Call(name, None, [s, k], mk)
        if name == "cable.new":
            def mk():
                C = sdn.Cable(name=s, properties=props)
                if k:
                    C.create_wires(k)
                return C
            return Call(name, None, [s, k], mk)
        if name == "pin.new":
            return Call(name, None, [], lambda: sdn.InnerPin())
        if name == "wire.new":
            return Call(name, None, [], lambda: sdn.Wire())

        if name.startswith("nl."):
            N = U.pick("netlist", t)
            if N is None:
                return None
            if name == "nl.create_library":
                return Call(name, N, [s], lambda: N.create_library(name=s, properties=props),
                            compound=True)
            if name == "nl.add_library":
                L = orphan("library", "netlist")
                if L is None:
                    return None
                return Call(name, N, [L, pos], lambda: N.add_library(L, pos), kind="add",
                            container=("libraries", N), element=L)
            if name == "nl.remove_library":
                L = member(N.libraries, "library")
                if L is None:
                    return None
                return Call(name, N, [L], lambda: N.remove_library(L), kind="remove",
                            container=("libraries", N), elements=[L])
            if name == "nl.remove_libraries_from":
                Ls = several(N.libraries, "library")
                arg = bulk_arg(Ls, mode)
                return Call(name, N, [Ls], lambda: N.remove_libraries_from(arg), kind="remove",
                            container=("libraries", N), elements=Ls)
            if name == "nl.libraries=":
                cur, new = reorder(N.libraries, "library")

                def f():
                    N.libraries = new
                return Call(name, N, [new], f, kind="reorder", container=("libraries", N),
                            before=cur, value=new)
            if name == "nl.top=":
                m = mode % 4
                x = None if m == 3 else (U.pick("definition", a) if m == 2 else U.pick("instance", a))

                def f():
                    N.top_instance = x
                return Call(name, N, [x], f, kind="top")
            if name == "nl.set_top_instance":
                x = U.pick("definition", a) if mode % 2 else U.pick("instance", a)
                nm = s if s is not None else "instance"
                return Call(name, N, [x, nm], lambda: N.set_top_instance(x, nm), kind="top",
                            compound=True)
            return None

        if name.startswith("lib."):
            L = U.pick("library", t)
            if L is None:
                return None
            if name == "lib.create_definition":
                return Call(name, L, [s], lambda: L.create_definition(name=s, properties=props),
                            compound=True)
            if name == "lib.add_definition":
                D = orphan("definition", "library")
                if D is None:
                    return None
                return Call(name, L, [D, pos], lambda: L.add_definition(D, pos), kind="add",
                            container=("definitions", L), element=D)
            if name == "lib.remove_definition":
                D = member(L.definitions, "definition")
                if D is None:
                    return None
                return Call(name, L, [D], lambda: L.remove_definition(D), kind="remove",
                            container=("definitions", L), elements=[D])
            if name == "lib.remove_definitions_from":
                Ds = several(L.definitions, "definition")
                arg = bulk_arg(Ds, mode)
                return Call(name, L, [Ds], lambda: L.remove_definitions_from(arg), kind="remove",
                            container=("definitions", L), elements=Ds)
            if name == "lib.definitions=":
                cur, new = reorder(L.definitions, "definition")

                def f():
                    L.definitions = new
                return Call(name, L, [new], f, kind="reorder", container=("definitions", L),
                            before=cur, value=new)
            return None

        if name.startswith("def."):
            D = U.pick("definition", t)
            if D is None:
                return None
            if name == "def.create_port":
                direction = [None, sdn.IN, sdn.OUT, sdn.INOUT][mode % 4]
                return Call(name, D, [s, k], lambda: D.create_port(name=s, pins=k, direction=direction,
                                                                  properties=props), compound=True)
            if name == "def.create_cable":
                return Call(name, D, [s, k], lambda: D.create_cable(name=s, wires=k, properties=props),
                            compound=True)
            if name == "def.create_child":
                R = U.pick("definition", b) if mode % 4 else None
                return Call(name, D, [s, R], lambda: D.create_child(name=s, reference=R,
                                                                   properties=props), compound=True)
            for what, kind, attr, parent_attr in (("port", "port", "ports", "definition"),
                                                  ("cable", "cable", "cables", "definition"),
                                                  ("child", "instance", "children", "parent")):
                plural = {"port": "ports", "cable": "cables", "child": "children"}[what]
                cur_list = getattr(D, attr)
                if name == "def.add_" + what:
                    x = orphan(kind, parent_attr)
                    if x is None:
                        return None
                    meth = getattr(D, "add_" + what)
                    return Call(name, D, [x, pos], lambda: meth(x, pos), kind="add",
                                container=(attr, D), element=x)
                if name == "def.remove_" + what:
                    x = member(cur_list, kind)
                    if x is None:
                        return None
                    meth = getattr(D, "remove_" + what)
                    return Call(name, D, [x], lambda: meth(x), kind="remove", container=(attr, D),
                                elements=[x])
                if name == "def.remove_%s_from" % plural:
                    xs = several(cur_list, kind)
                    arg = bulk_arg(xs, mode)
                    meth = getattr(D, "remove_%s_from" % plural)
                    return Call(name, D, [xs], lambda: meth(arg), kind="remove", container=(attr, D),
                                elements=xs)
                if name == "def.%s=" % attr:
                    cur, new = reorder(cur_list, kind)

                    def f():
                        setattr(D, attr, new)
                    return Call(name, D, [new], f, kind="reorder", container=(attr, D), before=cur,
                                value=new)
            return None

        if name.startswith("port."):
            P = U.pick("port", t)
            if P is None:
                return None
            if name == "port.create_pin":
                return Call(name, P, [], lambda: P.create_pin(), compound=True)
            if name == "port.create_pins":
                return Call(name, P, [k], lambda: list(P.create_pins(max(1, k))), compound=True)
            if name == "port.add_pin":
                x = orphan("pin", "port")
                if x is None:
                    return None
                return Call(name, P, [x, pos], lambda: P.add_pin(x, pos), kind="add",
                            container=("pins", P), element=x)
            if name == "port.remove_pin":
                x = member(P.pins, "pin")
                if x is None:
                    return None
                return Call(name, P, [x], lambda: P.remove_pin(x), kind="remove",
                            container=("pins", P), elements=[x])
            if name == "port.remove_pins_from":
                xs = several(P.pins, "pin")
                arg = bulk_arg(xs, mode)
                return Call(name, P, [xs], lambda: P.remove_pins_from(arg), kind="remove",
                            container=("pins", P), elements=xs)
            if name == "port.pins=":
                cur, new = reorder(P.pins, "pin")

                def f():
                    P.pins = new
                return Call(name, P, [new], f, kind="reorder", container=("pins", P), before=cur,
                            value=new)
            if name == "port.direction=":
                v = [sdn.IN, sdn.OUT, sdn.INOUT, sdn.UNDEFINED, "in", 3][mode % 6]

                def f():
                    P.direction = v
                return Call(name, P, [v], f, kind="attr")
            return None

        if name.startswith("cable."):
            C = U.pick("cable", t)
            if C is None:
                return None
            if name == "cable.create_wire":
                return Call(name, C, [], lambda: C.create_wire(), compound=True)
            if name == "cable.create_wires":
                return Call(name, C, [k], lambda: list(C.create_wires(max(1, k))), compound=True)
            if name == "cable.add_wire":
                x = orphan("wire", "cable")
                if x is None:
                    return None
                return Call(name, C, [x, pos], lambda: C.add_wire(x, pos), kind="add",
                            container=("wires", C), element=x)
            if name == "cable.remove_wire":
                x = member(C.wires, "wire")
                if x is None:
                    return None
                return Call(name, C, [x], lambda: C.remove_wire(x), kind="remove",
                            container=("wires", C), elements=[x])
            if name == "cable.remove_wires_from":
                xs = several(C.wires, "wire")
                arg = bulk_arg(xs, mode)
                return Call(name, C, [xs], lambda: C.remove_wires_from(arg), kind="remove",
                            container=("wires", C), elements=xs)
            if name == "cable.wires=":
                cur, new = reorder(C.wires, "wire")

                def f():
                    C.wires = new
                return Call(name, C, [new], f, kind="reorder", container=("wires", C), before=cur,
                            value=new)
            return None

        if name.startswith("bundle."):
            Bs = U.pool["port"] + U.pool["cable"]
            Bn = _pick(Bs, t)
            if Bn is None:
                return None
            if name == "bundle.is_downto=":
                def f():
                    Bn.is_downto = bool(mode % 2)
                return Call(name, Bn, [mode % 2], f, kind="attr")
            if name == "bundle.is_scalar=":
                def f():
                    Bn.is_scalar = bool(mode % 2)
                return Call(name, Bn, [mode % 2], f, kind="attr")
            if name == "bundle.is_array=":
                def f():
                    Bn.is_array = bool(mode % 2)
                return Call(name, Bn, [mode % 2], f, kind="attr")
            if name == "bundle.lower_index=":
                def f():
                    Bn.lower_index = k
                return Call(name, Bn, [k], f, kind="attr")
            return None

        if name.startswith("wire."):
            W = U.pick("wire", t)
            if W is None:
                return None
            outers = list(U.outer_seen.values())

            def choose_pin_to_connect():
                m = mode % 3
                D = W.cable.definition if W.cable is not None else None
                if m == 0:
                    if own and D is not None:
                        cand = [p for P in D.ports for p in P.pins if p.wire is None]
                        if cand:
                            return cand[a % len(cand)]
                    return U.pick("pin", a)
                if own and D is not None:
                    cand = [op for I in D.children for op in I.pins.values() if op.wire is None]
                    if cand:
                        x = cand[a % len(cand)]
                        if m == 2:
                            return sdn.OuterPin.from_instance_and_inner_pin(x.instance, x.inner_pin)
                        return x
                if m == 2:
                    return U.pick("proxy", a) or _pick(outers, a)
                return _pick(outers, a) or U.pick("proxy", a)

            def as_arg(p):
                if mode % 3 == 2 and hasattr(p, "inner_pin") and p.instance is not None:
                    return sdn.OuterPin.from_instance_and_inner_pin(p.instance, p.inner_pin)
                return p

            if name == "wire.connect_pin":
                p = choose_pin_to_connect()
                if p is None:
                    return None
                return Call(name, W, [p, pos], lambda: W.connect_pin(p, pos), kind="connect", pin=p)
            if name == "wire.disconnect_pin":
                if own and len(W.pins):
                    p = as_arg(W.pins[a % len(W.pins)])
                else:
                    p = [U.pick("pin", a), _pick(outers, a), U.pick("proxy", a)][mode % 3]
                if p is None:
                    return None
                return Call(name, W, [p], lambda: W.disconnect_pin(p), kind="disconnect", pins=[p])
            if name == "wire.disconnect_pins_from":
                ps = []
                cur = list(W.pins)
                for i, v in enumerate(perm[: max(1, k + 1)]):
                    if (own or v % 3) and cur:
                        x = cur[(a + v + i) % len(cur)]
                        ps.append(as_arg(x) if v % 2 else x)
                    else:
                        stale = [p_ for p_ in U.outer_seen.values()
                                 if p_.instance is None or p_.inner_pin is None]
                        x = [U.pick("pin", a + v), _pick(outers, a + v), U.pick("proxy", a + v),
                             _pick(stale, a + v)][v % 4]
                        if x is not None:
                            ps.append(x)
                arg = bulk_arg(ps, mode)
                return Call(name, W, [ps], lambda: W.disconnect_pins_from(arg), kind="disconnect",
                            pins=ps)
            if name == "wire.pins=":
                cur = list(W.pins)
                order = sorted(range(len(cur)), key=lambda i: (perm[i % len(perm)], i))
                new = [cur[i] for i in order]
                m = mode % 6
                if m == 1 and new:
                    new[-1] = new[0]
                elif m == 2 and new:
                    new.pop()
                elif m == 3:
                    x = U.pick("pin", a)
                    if x is not None:
                        new.append(x)
                elif m == 4:
                    new = [as_arg(x) if hasattr(x, "inner_pin") and x.instance is not None
                           else x for x in new]
                    new = [sdn.OuterPin.from_instance_and_inner_pin(x.instance, x.inner_pin)
                           if hasattr(x, "inner_pin") and x.instance is not None else x for x in new]

                def f():
                    W.pins = new
                return Call(name, W, [new], f, kind="reorder", container=("pins", W), before=cur,
                            value=new)
            return None

        if name.startswith("inst."):
            I = U.pick("instance", t)
            if I is None:
                return None
            if name == "inst.reference=":
                R = None if mode % 5 == 4 else U.pick("definition", a)
                if own and R is not None and I.reference is not None:
                    # prefer a shape-compatible definition
                    shape = [len(P.pins) for P in I.reference.ports]
                    cand = [D for D in U.pool["definition"]
                            if [len(P.pins) for P in D.ports] == shape]
                    if cand:
                        R = cand[a % len(cand)]
                elif not own and R is not None and I.reference is not None and mode % 2:
                    # near miss: same number of ports, different pin counts
                    shape = [len(P.pins) for P in I.reference.ports]
                    cand = [D for D in U.pool["definition"] if len(D.ports) == len(shape)
                            and [len(P.pins) for P in D.ports] != shape]
                    if cand:
                        R = cand[a % len(cand)]

                def f():
                    I.reference = R
                return Call(name, I, [R], f, kind="reference")
            if name == "inst.del_reference":
                def f():
                    del I.reference
                return Call(name, I, [], f, kind="reference")
            return None

        if name == "proxy.new":
            I = U.pick("instance", t)
            if I is None:
                return None
            ip = None
            if own and I.reference is not None:
                cand = [p for P in I.reference.ports for p in P.pins]
                if cand:
                    ip = cand[a % len(cand)]
            if ip is None:
                ip = U.pick("pin", a)
            if ip is None:
                return None

            def mk():
                x = sdn.OuterPin.from_instance_and_inner_pin(I, ip)
                U.add("proxy", x)
                U.keep.append(x)
                return None
            return Call(name, None, [I, ip], mk)

        if name == "ns.default=":
            # configuration, not an edit: elements created from now on get the other naming policy
            # (adding them to a parent of a different policy converts them, or is refused)
            v = ["DEFAULT", "EDIF"][mode % 2]

            def setdefault():
                sdn.namespace_manager.default = v
            return Call(name, None, [v], setdefault, kind="config")
        if name == "el.clone_container":
            cs = U.pool["netlist"] + U.pool["library"] + U.pool["definition"]
            E = _pick(cs, t)
            if E is None:
                return None
            if isinstance(E, sdn.Netlist) and not self_contained(E):
                return None

            def mkclone():
                c = E.clone()
                U.mark_cloned(c)
                return c
            return Call(name, E, [], mkclone, kind="clone")
        if name.startswith("el."):
            els = U.first_class()
            if name in ("el.set", "el.del", "el.pop") and key == ".NS" and own:
                # a policy switch is only possible on parentless roots: prefer those that have members
                roots = [x for x in els if ops_parent(x) is None and ops_members(x)]
                if roots:
                    els = roots
            if name in ("el.set", "el.del", "el.pop") and key in (".NAME", "EDIF.identifier") and own:
                # prefer elements that already carry the key (re-identifying / un-naming an indexed
                # element is where index and data can part ways)
                have = [x for x in els if key in x.data]
                if have:
                    els = have
            E = _pick(els, t)
            if E is None:
                return None
            def sibling_value(k):
                """a value some sibling of E currently carries under key k (to provoke collisions)"""
                for attr, lst in (("netlist", "libraries"), ("library", "definitions"),
                                  ("definition", "ports" if type(E).__name__ == "Port" else "cables"),
                                  ("parent", "children")):
                    par = getattr(E, attr, None)
                    if par is not None and not callable(par) and hasattr(par, lst):
                        vals = [x.data[k] for x in getattr(par, lst) if x is not E and k in x.data
                                and isinstance(x.data[k], str)]
                        if vals:
                            return vals[a % len(vals)]
                return None
            if name == "el.name=":
                if s is not None and mode % 3 == 0:
                    sv = sibling_value(".NAME")
                    if sv is not None:
                        s = sv

                def f():
                    E.name = s
                return Call(name, E, [s], f, kind="data", key=".NAME")
            if name == "el.del_name":
                def f():
                    del E.name
                return Call(name, E, [], f, kind="data", key=".NAME")
            if name == "el.set":
                if key == "EDIF.identifier":
                    v = IDENTS_SET[b % len(IDENTS_SET)]
                    if mode % 3 == 0:
                        sv = sibling_value("EDIF.identifier")
                        if sv is not None:
                            v = sv.swapcase() if mode % 2 else sv
                elif key == ".NAME":
                    v = s
                    if v is None:
                        return None
                elif key == ".NS":
                    v = ["DEFAULT", "EDIF", "EDIF", "NO_SUCH_POLICY"][b % 4]
                else:
                    v = val

                def f():
                    E[key] = v
                return Call(name, E, [key, v], f, kind="data", key=key)
            if name == "el.del":
                def f():
                    del E[key]
                return Call(name, E, [key], f, kind="data", key=key)
            if name == "el.pop":
                return Call(name, E, [key], lambda: (E.pop(key), None)[1], kind="data", key=key)
            if name == "el.clone":
                if isinstance(E, sdn.Netlist) and not self_contained(E):
                    return None
                return Call(name, E, [], lambda: E.clone(), kind="clone")
            return None
        return None


# ------------------------------------------------------------------------------------------------
# strategy

STRUCT_OPS = [
    "nl.new", "lib.new", "def.new", "inst.new", "port.new", "cable.new", "pin.new", "wire.new",
    "nl.create_library", "nl.add_library", "nl.remove_library", "nl.remove_libraries_from",
    "nl.libraries=", "nl.top=", "nl.set_top_instance",
    "lib.create_definition", "lib.add_definition", "lib.remove_definition",
    "lib.remove_definitions_from", "lib.definitions=",
    "def.create_port", "def.add_port", "def.remove_port", "def.remove_ports_from", "def.ports=",
    "def.create_cable", "def.add_cable", "def.remove_cable", "def.remove_cables_from", "def.cables=",
    "def.create_child", "def.add_child", "def.remove_child", "def.remove_children_from",
    "def.children=",
    "port.create_pin", "port.create_pins", "port.add_pin", "port.remove_pin", "port.remove_pins_from",
    "port.pins=", "port.direction=",
    "cable.create_wire", "cable.create_wires", "cable.add_wire", "cable.remove_wire",
    "cable.remove_wires_from", "cable.wires=",
    "bundle.is_downto=", "bundle.is_scalar=", "bundle.is_array=", "bundle.lower_index=",
    "wire.connect_pin", "wire.disconnect_pin", "wire.disconnect_pins_from", "wire.pins=",
    "inst.reference=", "inst.del_reference", "proxy.new",
    "el.name=", "el.del_name", "el.set", "el.del", "el.pop", "ns.default=",
]

NAMES = ["a", "A", "b", "a_1", "c", "a[3]", "x y", "d", ""]
IDENTS = ["a", "A", "b", "aB", "Ab", "b_", "&1", "c"]
IDENTS_SET = IDENTS + ["1a", "a-b", "a b", "", "x" * 256, "B", "AB"]
KEYS = [".NAME", "EDIF.identifier", "K", "user.k", ".NS"]


def op_strategy(weights, names=NAMES, keys=KEYS, own_bias=3, odd_positions=False):
    """weights: dict op name -> int weight (missing = 1 for STRUCT_OPS, 0 for others)"""
    table = []
    for n in sorted(set(STRUCT_OPS) | set(weights)):
        w = weights.get(n, 1 if n in STRUCT_OPS else 0)
        table.extend([n] * w)
    small = st.integers(0, 40)
    return st.fixed_dictionaries({
        "op": st.sampled_from(table),
        "t": small, "a": small, "b": small,
        "own": st.integers(0, own_bias).map(lambda v: v != 0),
        "k": st.integers(0, 3),
        # odd_positions: now and then a position of the wrong type (the insert then raises TypeError
        # half-way through the call)
        "pos": st.one_of(st.none(), st.integers(-1, 4)) if not odd_positions else st.one_of(
            st.none(), st.integers(-1, 4), st.integers(-1, 4), st.sampled_from([1.5, "0"])),
        "s": st.one_of(st.none(), st.sampled_from(names)),
        "perm": st.lists(st.integers(0, 5), min_size=1, max_size=4),
        "mode": st.integers(0, 11),
        "key": st.sampled_from(keys),
        "val": st.one_of(st.integers(0, 3), st.sampled_from(["v", "w"]), st.none(),
                         st.lists(st.integers(0, 2), max_size=2)),
    })


def histories(weights, max_len, names=NAMES, keys=KEYS, own_bias=3, min_len=1, odd_positions=False):
    op = op_strategy(weights, names, keys, own_bias, odd_positions)
    return st.integers(min_len, max_len).flatmap(lambda n: st.lists(op, min_size=n, max_size=n))
