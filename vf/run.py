"""CLI:  python -m vf.run <ID> --tier quick|thorough [--replay file] [--n N]"""
import argparse
import glob
import json
import math
import multiprocessing as mp
import os
import sys
import time
import traceback

from vf import core


def main(argv=None):
    ap = argparse.ArgumentParser()
    ap.add_argument("pid")
    ap.add_argument("--tier", default=os.environ.get("VERIF_TIER", "quick"),
                    choices=["quick", "thorough"])
    ap.add_argument("--replay", default=None)
    ap.add_argument("--n", type=int, default=None, help="override number of generated cases")
    ap.add_argument("--no-shrink", action="store_true")
    args = ap.parse_args(argv)
    pid = args.pid.upper()
    try:
        seed = int(os.environ.get("VERIF_SEED", "1"))
    except ValueError:
        seed = 1
    try:
        from vf.props import load
        prop = load(pid)
    except Exception:
        print("HARNESS-ERROR property=%s cannot load check:\n%s" % (pid, traceback.format_exc()))
        return 2
    if args.replay:
        return replay(prop, args.replay)
    return check(prop, args.tier, seed, args.n, not args.no_shrink)


# ------------------------------------------------------------------------------------------------


def replay(prop, path):
    data = json.load(open(path))
    case = data["case"] if isinstance(data, dict) and "case" in data else data
    try:
        # a fixed case (bundled example) gets the same generous budget as in the tiers
        fixed = any(core.canonical_json(case) == core.canonical_json(c)
                    for c in prop.fixed_cases("thorough"))
        if fixed:
            res = core.run_case(prop, case, limit=getattr(prop, "FIXED_TIMEOUT_S", 900),
                                timeout_is_violation=False)
        else:
            res = core.run_case(prop, case)
    except Exception:
        print("HARNESS-ERROR property=%s replay raised:\n%s" % (prop.ID, traceback.format_exc()))
        return 2
    if res.violations:
        for sig, detail in res.violations:
            print("replay: %s -- %s" % (sig, detail))
        print("VIOLATION property=%s replay=%s" % (prop.ID, path))
        return 1
    print("replay: property %s holds on %s" % (prop.ID, path))
    return 0


def run_regress(prop, known_sigs):
    """regression tier: every saved case; 'expect' is 'pass' or a signature (open finding)."""
    out = {"cases": 0, "unexpected": []}
    for path in sorted(glob.glob(os.path.join(core.HERE, "regress", prop.ID, "*.json"))):
        data = json.load(open(path))
        res = core.run_case(prop, data["case"])
        out["cases"] += 1
        expect = data.get("expect", "pass")
        for sig, detail in res.violations:
            if sig == expect and sig in known_sigs:
                continue
            if sig in known_sigs:
                continue
            out["unexpected"].append((sig, detail, path))
    return out


def check(prop, tier, seed, n_override, do_shrink):
    t0 = time.time()
    pid = prop.ID
    open_known, fixed_known = core.load_known(pid)
    known_sigs = {f["signature"] for f in open_known}
    n_total = n_override if n_override is not None else prop.N[tier]
    per = int(math.ceil(n_total / core.NSHARDS)) if n_total else 0
    budget = prop.BUDGET_S[tier]

    violations = {}  # sig -> info
    harness_error = None

    # --- regression tier (sequential, seconds)
    try:
        reg = run_regress(prop, known_sigs)
    except Exception:
        print("HARNESS-ERROR property=%s regression tier raised:\n%s" % (pid, traceback.format_exc()))
        return 2
    for sig, detail, path in reg["unexpected"]:
        violations.setdefault(sig, {"count": 0, "detail": detail, "replay": path,
                                    "origin": "regress"})
        violations[sig]["count"] += 1

    # --- generation
    ctx = mp.get_context("fork")
    jobs = [(pid, tier, k, per, seed, budget) for k in range(core.NSHARDS)]
    with ctx.Pool(core.NSHARDS) as pool:
        outs = pool.map(core.worker_collect, jobs, chunksize=1)

        evaluations = 0
        hashes = set()
        labels = {}
        extra = {}
        samples = []
        known_hits = {}
        budget_hit = False
        found = {}
        for o in outs:
            if o["error"]:
                harness_error = o["error"]
            evaluations += o["evaluations"]
            hashes.update(o["nontrivial_hashes"])
            budget_hit = budget_hit or o["budget_hit"]
            for key, val in o["labels"].items():
                labels[key] = labels.get(key, 0) + val
            for key, val in o["extra"].items():
                extra[key] = extra.get(key, 0) + val
            samples.extend(o["samples"])
            for sig, ent in o["violations"].items():
                if sig in known_sigs:
                    known_hits[sig] = known_hits.get(sig, 0) + ent["count"]
                    continue
                cur = found.get(sig)
                if cur is None:
                    found[sig] = dict(ent)
                else:
                    cur["count"] += ent["count"]
                    if ent["size"] < cur["size"]:
                        cnt = cur["count"]
                        cur.update(ent)
                        cur["count"] = cnt

        if harness_error:
            print("HARNESS-ERROR property=%s\n%s" % (pid, harness_error))
            return 2

        # --- shrink unknown signatures (bounded)
        shrink_budget = 25 if tier == "quick" else 240
        todo = sorted(found)[:8]
        if do_shrink and todo:
            sjobs = []
            for sig in todo:
                ent = found[sig]
                if ent["origin"] == "generated":
                    sjobs.append((pid, tier, ent["shard"], per, seed, sig, shrink_budget))
            results = pool.map(core.worker_shrink, sjobs, chunksize=1) if sjobs else []
            for job, best in zip(sjobs, results):
                sig = job[5]
                if best["case"] is not None and best["size"] <= found[sig]["size"]:
                    found[sig]["case"] = best["case"]
                    found[sig]["detail"] = best["detail"]
                    found[sig]["size"] = best["size"]

    # --- optional per-property extra campaign (C15: coverage-guided fuzzing in the thorough tier)
    post_info = {}
    if hasattr(prop, "post"):
        try:
            post_info = prop.post(tier, seed) or {}
        except Exception:
            print("HARNESS-ERROR property=%s post campaign raised:\n%s" % (pid, traceback.format_exc()))
            return 2
        for case in post_info.pop("cases", []):
            try:
                r = core.run_case(prop, case)
            except Exception:
                print("HARNESS-ERROR property=%s replaying a fuzzer artifact raised:\n%s" % (
                    pid, traceback.format_exc()))
                return 2
            evaluations += 1
            for sig, detail in r.violations:
                if sig in known_sigs:
                    known_hits[sig] = known_hits.get(sig, 0) + 1
                elif sig not in found:
                    found[sig] = {"count": 1, "case": case, "detail": detail, "shard": -1,
                                  "origin": "fuzzer", "size": len(core.canonical_json(case))}
                else:
                    found[sig]["count"] += 1

    for sig in sorted(found):
        ent = found[sig]
        case = ent["case"]
        if do_shrink and sig in todo:
            try:
                case = core.json_shrink(prop, case, sig, 10.0 if tier == "quick" else 60.0)
            except Exception:
                pass
        safe = "".join(c if c.isalnum() or c in "-_." else "_" for c in sig)[:120]
        rpath = os.path.join(core.HERE, "replays", pid, safe + ".json")
        core.write_json(rpath, {"property": pid, "signature": sig, "detail": ent["detail"],
                                "seed": seed, "tier": tier, "case": case})
        violations[sig] = {"count": ent["count"], "detail": ent["detail"],
                           "replay": os.path.relpath(rpath, core.HERE), "origin": ent["origin"]}

    # --- samples: shortest, median, longest of what was kept
    samples.sort(key=lambda x: x[0])
    picked = []
    if samples:
        idxs = sorted({0, len(samples) // 2, len(samples) - 1})
        picked = [core.trim_sample(samples[i][1]) for i in idxs]

    wall = time.time() - t0
    evidence = {
        "property_id": pid,
        "tier": tier,
        "seed": seed,
        "level": "exploration",
        "coverage": {
            "evaluations": evaluations,
            "distinct_nontrivial": len(hashes),
            "rule": prop.RULE,
            "samples": picked,
            "classes": dict(sorted(labels.items())),
            "counters": dict(sorted(extra.items())),
            "regression_cases": reg["cases"],
            "known_finding_hits": known_hits,
            "budget_hit": budget_hit,
            "shards": core.NSHARDS,
            "requested_cases": n_total,
            "violating_signatures": {s: v["count"] for s, v in violations.items()},
            "extra_campaign": post_info,
        },
        "assumptions": list(prop.ASSUMPTIONS),
        "wall_s": round(wall, 2),
        "violations": len(violations),
    }
    core.write_json(os.path.join(core.HERE, "evidence", pid + ".json"), evidence)

    print("check %s tier=%s seed=%d: %d cases, %d distinct non-trivial, %.1fs%s" % (
        pid, tier, seed, evaluations, len(hashes), wall,
        " (budget hit: fewer cases than requested)" if budget_hit else ""))
    for f in open_known:
        print("KNOWN-FINDING: property=%s %s [signature %s; hit %d times in this run]" % (
            pid, f.get("what", ""), f["signature"], known_hits.get(f["signature"], 0)))
    if violations:
        for sig, v in sorted(violations.items()):
            print("  signature %s x%d: %s" % (sig, v["count"], v["detail"][:400]))
            print("VIOLATION property=%s replay=%s" % (pid, v["replay"]))
        return 1
    return 0


if __name__ == "__main__":
    sys.exit(main())
